#!/bin/sh
# tools/mutant.sh '<sed-expr>' <file-relative-to-repo> <CHECK-ID> [extra check args]
# Copies /repo/pandora to a scratch tree, applies the sed expression to one file, runs the check against it, removes it.
EXPR="$1"; FILE="$2"; ID="$3"; shift 3
D=$(mktemp -d /tmp/pvmut-XXXXXX)
mkdir -p "$D" && cp -r /repo/pandora "$D/pandora" && find "$D" -name __pycache__ -prune -exec rm -rf {} + 2>/dev/null
cp "$D/$FILE" "$D/$FILE.orig"
sed -i "$EXPR" "$D/$FILE"
if cmp -s "$D/$FILE" "$D/$FILE.orig"; then echo "MUTANT DID NOT APPLY: $EXPR"; rm -rf "$D"; exit 9; fi
diff "$D/$FILE.orig" "$D/$FILE" | head -6
rm "$D/$FILE.orig"
cd /verif && PANDORA_VERIF_REPO="$D" ./check "$ID" --no-evidence "$@" 2>&1 | grep -E "VIOLATION|INCONCLUSIVE|held|violated" | head -5
rm -rf "$D"
