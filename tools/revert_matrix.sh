#!/bin/sh
# tools/revert_matrix.sh : for every repository fix recorded in known_findings.json, take it out again on a scratch copy of
# /repo/pandora (reverse patch of that commit only) and run the quick check of its property: the defect must be reported.
cd /verif
OUT=${REVERT_OUT:-/verif/seeded/REVERTS.md}
TMP=$(mktemp)
/venv/bin/python -c "
import json
seen=set()
for f in json.load(open('known_findings.json'))['findings']:
    if f['status']=='fixed' and (f['commit'],f['property']) not in seen:
        seen.add((f['commit'],f['property'])); print(f['commit'], f['property'], f['key'])
" | while read C P KEY; do
  D=$(mktemp -d /tmp/pvrev-XXXXXX); cp -r /repo/pandora "$D/pandora"; find "$D" -name __pycache__ -prune -exec rm -rf {} + 2>/dev/null
  if ! git -C /repo diff $C $C~1 -- pandora | patch -s -p1 -d "$D" > /dev/null 2>&1; then echo "| $C | $P | $KEY | reverse patch does not apply to the current tree (later fixes rewrote the same lines) | |" >> $TMP; rm -rf "$D"; continue; fi
  O=$(PANDORA_VERIF_REPO="$D" ./check "$P" --no-evidence 2>&1); RC=$?
  CL=$(echo "$O" | grep -m1 "violated clause" | sed 's/.*violated clause=\([^ ]*\) situation=\([^ ]*\).*/\1 (\2)/')
  echo "| $C | $P | $KEY | rc=$RC | $CL |" >> $TMP
  rm -rf "$D"
done
{ echo "# Repository fixes taken out again, one at a time, vs the quick check of their property (tools/revert_matrix.sh, /verif $(git rev-parse --short HEAD), /repo $(git -C /repo rev-parse --short HEAD))"; echo;
  echo "| fix commit | property | finding | exit of the check | first violated clause |"; echo "|---|---|---|---|---|"; cat $TMP; } > $OUT
rm -f $TMP
grep -c "rc=1" $OUT; grep -v "rc=1" $OUT | grep "^| [0-9a-f]"
