#!/venv/bin/python
"""Assembles /verif/seeded/<name>/ from the agents' output directories and my own verification results."""
import json, os, re, shutil, sys
V = "/verif"
ROUND1 = {
 # id: (source dir, caught by (quick tier), strengthened?, one-line description, needs)
 "C01": ("/tmp/out-C01", ["C01", "C08", "C12"], "C01 gained the effect-based left/right structure-symmetry monitor (the call-count spy saw the right call happen); C08 and C12 caught it unchanged",
         "cost_volume_confidence_run drops the cost volume returned by the right-image pass", "validation step + a second confidence indicator in the right cost volume (repeated confidence steps, risk or interval_bounds)"),
 "C02": ("/tmp/out-C02", ["C02"], "", "zncc picks the shifted right image with abs(disp) % 1", "zncc + subpix 4 + negative quarter disparities"),
 "C03": ("/tmp/out-C03", ["C03"], "", "argmax_split loops over row bands bounded by the number of columns", "max-type measure + more than 100 rows + portrait geometry (rows > 100*ceil(cols/100))"),
 "C04": ("/tmp/out-C04", ["C04"], "", "allocate_right_mask compares counters of integer disparities with the number of sampled disparities", "subpix 2/4 + right mask covering every in-image candidate of a pixel"),
 "C05": ("/tmp/out-C05", ["C05"], "C05 gained left/right images with different band lists (band valid on the left only), with and without validation",
         "matching_cost_check_conf checks the band against the left image twice", "left/right images with different bands + no validation step"),
 "C06": ("/tmp/out-C06", ["C06"], "", "vfit stop test rewritten with min(): wrong for max-type measures", "vfit + max-type measure + sample on a monotone slope (after a filter / filling)"),
 "C07": ("/tmp/out-C07", ["C07", "C13"], "", "mismatch search rounds the absolute position index + dR instead of dR", "exactly half-integer right disparity at an odd column inside the searched interval"),
 "C08": ("/tmp/out-C08", ["C08"], "", "validation_run fills the left map before cross-checking the right one", "validation with interpolated_disparity + real occlusions; only the right products change"),
 "C09": ("/tmp/out-C09", ["C09", "C02", "C03"], "gen.grids gained the 'band' (centre +- r) and 'pointvar' (min == max, varying) kinds, used by C02, C03, C04, C09",
         "cv_masked skips the per-pixel interval masking when all intervals have the same width", "per-pixel grids of identical width whose position varies"),
 "C10": ("/tmp/out-C10", ["C10"], "", "median filter uses np.median on blocks whose mask tile has no invalid pixel", "map larger than one 100-pixel block + invalid pixel just past a clean tile"),
 "C11": ("/tmp/out-C11", ["C11"], "", "cbca picks the right cross support with abs(modf(d))", "subpix 4 + negative quarter-pixel planes + textured image"),
 "C12": ("/tmp/out-C12", ["C12"], "", "interval_bounds possibility computed in float32: best possibility 0.99999994 for max-type", "zncc + interval_bounds on real costs; threshold 1.0 for the bracket clause"),
 "C13": ("/tmp/out-C13", ["C13", "C10"], "C13 scenes now span more than one internal block (>= 104 rows or columns) every other case; C10 caught it unchanged",
         "median_filter filters in place (no copy): later blocks read filtered values", "processed array spanning more than one 100-pixel block (>= 103 rows/cols) with local variation at the boundary"),
 "C14": ("/tmp/out-C14", ["C14"], "", "find_valid_neighbors walks one step less: a spurious 0.0 when the path ends on the image side", "sgm filling + flagged pixel on the image side along the longest dimension + no valid pixel on the line"),
 "C15": ("/tmp/out-C15", ["C15"], "C15 now judges the right-image ranges (right_disp_min/max, right coarse maps) as well",
         "run_multiscale no longer stores the scaled right user interval", "num_scales >= 3 + validation step; right pixels with an invalid/border coarse parent"),
 "C16": ("/tmp/out-C16", ["C16"], "C16 rasters now mix non-finite samples of other kinds than the nodata value",
         "nodata search collapsed into finite / non-finite", "nodata NaN (or inf) + samples that are inf (or NaN)"),
 "C17": ("/tmp/out-C17", ["C17"], "C17 base pairs gained band names held in object-dtype arrays (well-formed)",
         "check_band_names tests the dtype of the coordinate instead of each name", "multiband dataset built by the API user with an object-dtype band_im coordinate"),
 "C18": ("/tmp/out-C18", ["C18", "C12"], "", "risk kernels allocate their scratch arrays outside the prange loops (data race)", "risk confidence step + >= 2 numba threads + >= 2 rows"),
 "C19": ("/tmp/out-C19", ["C19"], "C19 inputs now give the right image its own geotransform",
         "right_confidence_measure.tif written with the left image's crs/transform", "validation + georeferenced inputs whose left/right transforms differ"),
 "C20": ("/tmp/out-C20", ["C20"], "", "global margins compare each non-cumulative margin with the cumulative sum instead of the running maximum", "two filters, the larger one not last"),
}
ROUND2 = {
 "C01": ("/tmp/out2-C01", ["C01"], "C01 histories now start with a check on the machine (documented usage) instead of re-checking before a run, and half of them use suffixed step names (validation.N only)",
         "run_exit also resets right_disp_map", "suffixed-only validation step + check, run, run on the same machine"),
 "C02": ("/tmp/out2-C02", ["C02", "C09"], "gen.grids gained the 'float' kind (bounds that are not multiples of 1/subpix), used by C02 and C09",
         "cv_masked turns the per-pixel bounds into plane indexes by truncation (lower bound needs a ceil)", "per-pixel float bounds that are not multiples of 1/subpix, above the global minimum"),
 "C03": ("/tmp/out2-C03", ["C03"], "C03 synthetic volumes now include 257-321 disparity samples",
         "argmin_split stores the winning index in a uint8 buffer", "min-type measure + more than 256 disparity samples + best at index >= 256"),
 "C04": ("/tmp/out2-C04", ["C04"], "", "validity_mask drops the window offset from the 'interval entirely outside' test (positive intervals)", "strictly positive interval + window >= 3 + a mask on the right image"),
 "C05": ("/tmp/out2-C05", ["C05"], "", "census check_conf drops the int type guard on window_size", "census + window_size 3.0 / 5.0 (float equal to an allowed int)"),
 "C06": ("/tmp/out2-C06", ["C06"], "", "loop_refinement tests the accumulated mask (bit 3 inherited from an earlier step) instead of this call's flag", "refinement -> median -> refinement, pixel carrying bit 3 that lands on a refinable sample"),
 "C07": ("/tmp/out2-C07", ["C07"], "", "cross-check skips a row when no valid pixel has its correspondent inside the right image", "a row whose valid pixels all point outside the right image"),
 "C08": ("/tmp/out2-C08", ["C08"], "C08 pipelines now end with a multiscale step in 30 % of the cases, with interval bounds that are not multiples of the zoom",
         "run_prepare downscales the interval with floor division", "multiscale + validation + interval bound not a multiple of scale_factor^num_scales"),
 "C09": ("/tmp/out2-C09", ["C06"], "same change as C06-1 (vfit stop test with min()); caught by C06, C09's own end-to-end clause needs zncc + filter + vfit which the quick tier rarely draws",
         "vfit stop test rewritten with min(): wrong for max-type measures", "zncc + filter before vfit refinement"),
 "C10": ("/tmp/out2-C10", ["C10"], "C10 applies regularising median_for_intervals on masks that already carry bit 11, and twice in a row",
         "median_for_intervals raises bit 11 with += instead of |=", "regularization true + pixel already carrying bit 11"),
 "C11": ("/tmp/out2-C11", ["C11"], "", "cbca computes the shifted right mask only for the first shift", "subpix 4 + right mask + planes with fractional part 0.5 / 0.75"),
 "C12": ("/tmp/out2-C12", ["C12"], "C12 pipelines now regularise interval_bounds steps placed after an ambiguity step (kernel sizes 1/3/5)",
         "interval_regularization works on the caller's ambiguity array when the kernel size is 1 and overwrites its last column", "ambiguity step then interval_bounds with regularization true and ambiguity_kernel_size 1"),
 "C13": ("/tmp/out2-C13", ["C13", "C04"], "", "validity_mask compares column coordinates with an index (positive intervals)", "strictly positive interval + dataset whose column coordinates do not start at 0"),
 "C14": ("/tmp/out2-C14", ["C14"], "", "mc-cnn mismatch filling keeps a 'valid found' flag per row instead of per pixel", "mc-cnn + unfillable mismatch preceded on its row by a fillable one"),
 "C15": ("/tmp/out2-C15", ["C15"], "C15 now draws window_size 1 as well",
         "disparity_range resets the border slices [-offset:] which select the whole array when offset is 0", "multiscale + matching-cost window_size 1"),
 "C16": ("/tmp/out2-C16", ["C16"], "", "multiband ROI read builds the col coordinate from the row offset", "multiband image + ROI whose row offset differs from its column offset"),
 "C17": ("/tmp/out2-C17", ["C17"], "C17 gained histories of checks on the same file paths rewritten in between",
         "check_images reads image headers through an lru_cache keyed by path", "same path checked, rewritten with another size, checked again in one process"),
 "C18": ("/tmp/out2-C18", ["C18"], "C18 cases use bilateral filters with different sigma_space but equal window width, and three of the worker processes run the cases in other orders",
         "bilateral spatial kernel cached at class level under the window width only", "two bilateral pipelines in one process with different sigma_space and the same window width"),
 "C19": ("/tmp/out2-C19", ["C19"], "", "cost_volume_confidence_run appends the step suffix to the indicator already stored in the configuration", "suffixed confidence step + the saved configuration fed back"),
 "C20": ("/tmp/out2-C20", ["C20"], "C20 draws regularization / vertical_depth for median_for_intervals filters",
         "median_for_intervals margins become max(filter_size, vertical_depth) with regularization", "median_for_intervals + regularization true + vertical_depth > filter_size"),
}
ROUND3 = {
 "C01": ("/tmp/out3-C01", [], "NOT A BREAKING CHANGE ANY MORE: it only manifests on the history check(A), check(B) on one machine, where the unchanged code itself was wrong (the machine kept the steps of A); triaging it led to the repository fix a1b4bed and to the C01 hist2 shards. With a1b4bed the machine starts every check from an empty pipeline_cfg and the swapped merge is behaviour-neutral (demo exits 0 with the change). Before a1b4bed, C01 hist2 reports both the unchanged code and this change",
         "check_pipeline_section merges the machine's pipeline_cfg first and the user's configuration over it (step order taken from the machine)", "a machine that already checked another pipeline whose step names come in another order"),
 "C02": ("/tmp/out3-C02", ["C02"], "C02 multiband pairs now store the right image's bands in another order than the left one (selected by name)",
         "sad/ssd take the right image's band index from the left image's band list", "multiband + sad/ssd + left/right images with the same band names in different orders"),
 "C03": ("/tmp/out3-C03", ["C03"], "C03 synthetic volumes are handed over in four memory layouts (C order, the matching-cost step's transposed layout, Fortran order, a window of a larger buffer)",
         "to_disp replaces NaN by +-inf through ravel(order='K'), a copy when the volume is not one dense block", "cost volume that is a strided view (cv.isel(...)) + pixels with some NaN costs"),
 "C04": ("/tmp/out3-C04", ["C04"], "C04 draws per-pixel grids with non-integer bounds (kind 'float') together with subpix 2/4, one directed case per shard",
         "mask_invalid_variable_disparity_range looks at the integer disparities only", "subpix 2/4 + per-pixel interval holding a sub-pixel sample but no integer"),
 "C05": ("/tmp/out3-C05", ["C05"], "", "check_pipeline_section no longer goes through update_conf before validating: 'inf'/'-inf' strings reach the step checkers", "'inf' / '-inf' (or 'NaN' outside invalid_disparity) on a pipeline parameter, through check_pipeline_section / check_conf"),
 "C06": ("/tmp/out3-C06", ["C06"], "", "quadratic refinement's flat-curve guard became alpha < 1e-15 (always true for similarity measures)", "quadratic refinement + max-type measure"),
 "C07": ("/tmp/out3-C07", ["C07"], "", "cross-check converts NaN to inf on a view of the second map (the caller's dataset)", "invalid_disparity NaN + cross-checking; visible on the other map only"),
 "C08": ("/tmp/out3-C08", ["C08", "C01", "C12"], "same mechanism as C01-1 (found again independently)", "cost_volume_confidence_run drops the cost volume returned by the right-image pass", "validation + at least two confidence indicators before the disparity step"),
 "C09": ("/tmp/out3-C09", ["C09", "C14"], "C09 end-to-end pipelines now use intervals that exclude 0 (near and far, both signs), right masks, and directed small tiles with cross-checking and sgm / mc-cnn filling; filled pixels are counted",
         "find_valid_neighbors bounds the scan by the distance to the farthest side (one step short towards index 0): a spurious 0.0 neighbour", "sgm filling + flagged pixel whose low-index side is all invalid and farthest + interval that excludes 0"),
 "C10": ("/tmp/out3-C10", ["C10"], "C10 gained the 'large-area' invalid layout (one large invalid rectangle) and two directed multi-block cases with an invalid area larger than 100x100",
         "bilateral filter skips a 50x50 sub-array whose centres are all invalid without advancing the column cursor", "bilateral + aligned 50x50 block of invalid centres + image wide enough for another block on its right"),
 "C11": ("/tmp/out3-C11", ["C11"], "", "cbca crops the shifted right images with sizes taken from the cost volume (one column too many)", "window >= 3 + subpix >= 2 + fractional plane with non-negative integer part + region reaching the right edge"),
 "C12": ("/tmp/out3-C12", ["C12"], "C12 gained volumes where all pixels but a handful (< 1 %) share one cost curve (1st and 99th percentiles of the ambiguity coincide)",
         "ambiguity normalisation tests 'constant map' before the percentile clip instead of after", "normalised ambiguity + map whose 1st/99th percentiles coincide but which is not constant (>= 101 pixels)"),
 "C13": ("/tmp/out3-C13", ["C13", "C07"], "", "mismatch/occlusion classification rounds the absolute column index + dR", "half-integer right disparity + crop starting at an odd column"),
 "C14": ("/tmp/out3-C14", ["C14"], "", "sgm filling swaps the flag bits with one XOR (clears an already set 'filled' bit)", "sgm + pixel flagged 8/9 that already carries the filled bit (two validation steps)"),
 "C15": ("/tmp/out3-C15", ["C15", "C08"], "C15 compares the level images the steps worked on with the levels the exchanged pair gives (each image's levels depend on that image alone)",
         "prepare_pyramid builds the right mask pyramid from the left mask", "multiscale + left/right masks that differ"),
 "C16": ("/tmp/out3-C16", ["C16"], "", "add_mask reads the mask with out_dtype uint8 (GDAL saturates negatives to 0)", "signed mask raster with negative values"),
 "C17": ("/tmp/out3-C17", ["C17"], "C17 gained disparity grid files that declare a nodata value (well-formed ones, and min > max exactly on samples equal to that value, left and right)",
         "grid min <= max check reads masked arrays", "grid file with a nodata tag + inversion on samples equal to the tag"),
 "C18": ("/tmp/out3-C18", ["C18"], "", "cbca masks the right image in place (no copy)", "cbca + right-role image with invalid mask pixels"),
 "C19": ("/tmp/out3-C19", ["C19"], "C19 gained a save_results workload on synthetic products of 19 heights/widths around the usual strip sizes (127..513) and tall CLI cases (128/129/257 rows)",
         "confidence bands written in strips of 128 rows with range(0, row - 1, 128)", "confidence measure + image height 128k + 1"),
 "C20": ("/tmp/out3-C20", ["C20", "C05"], "C20 expectations now come from the user's pipeline completed with the documented defaults (not from the configuration the code stored), and margin-bearing parameters are left out in a quarter of the draws",
         "bilateral check_conf updates a class-level defaults dict in place", "bilateral filter without sigma_space checked after another one with an explicit sigma_space in the same process"),
}
ROUND3B = {
 "C01": ("/tmp/out3-C01b", ["C01", "C15"], "", "the per-scale loop of pandora.run leaves the scale only when the step is literally named 'multiscale'", "suffixed multiscale step (multiscale.xxx) followed by another step"),
 "C08": ("/tmp/out3-C08b", ["C08", "C04"], "", "matching_cost_prepare builds the right validity mask with the right image's own mask where the left one belongs", "validation + a masked area at least as wide as the disparity interval (or touching the border)"),
}
ROUND4 = {
 "C01": ("/tmp/out4-C01", ["C01"], "C01 accept and exec shards (and C12, C20) draw free-form suffixes: 'filter.v1.6', 'filter.second_pass-1' (the documentation allows any string after the first dot); this also exposed the repository defect fixed by b4edce1",
         "the check loop treats a step as suffixed only when its name holds exactly one dot", "suffixed step whose suffix contains a dot (filter.1.5)"),
 "C02": ("/tmp/out4-C02", ["C02"], "C02 gained zncc (subpix 1) pairs whose no-data pixels hold NaN samples, as API-built datasets may", "compute_mean_raster sums rows with cumsum instead of nancumsum", "zncc + NaN samples on pixels flagged no-data (datasets built through the API)"),
 "C03": ("/tmp/out4-C03", ["C03"], "C03 synthetic volumes hold a few genuinely infinite (worst) costs in a fifth of the cases", "to_disp restores the NaN costs from np.isinf after the arg-min", "cost volume with infinite costs"),
 "C04": ("/tmp/out4-C04", ["C04"], "C04's ownership monitor now gives the steps after the disparity step no bit of the cost volume's own flags", "to_disp shares the validity-mask array between the cost volume and the disparity dataset (deepcopy dropped)", "a later flag-raising step, then the cost volume's flags read again (second disparity computation from the same volume)"),
 "C05": ("/tmp/out4-C05", ["C05"], "", "FixedZoomPyramid.check_conf merges the user's values into a class-level defaults dict", "multiscale step with explicit non-default values checked before one that omits them, in one process"),
 "C06": ("/tmp/out4-C06", ["C06"], "", "subpixel_refinement derives the sub-pixel factor from the spacing of the first two disparity samples", "cost volume with a single disparity sample (interval [d, d])"),
 "C07": ("/tmp/out4-C07", ["C07"], "", "the NaN -> inf conversion of the second map tests the wrong operand", "NaN in the other map at the correspondent of a valid pixel (invalid_disparity NaN)"),
 "C08": ("/tmp/out4-C08", ["C08", "C07"], "", "cross-checking converts NaN to inf in place on both maps (nan_to_num copy=False)", "invalid_disparity NaN + cross-checking + an invalid pixel"),
 "C09": ("/tmp/out4-C09", ["C09", "C11"], "C11 gained intervals wider than the image (C09 reported it unchanged)", "cbca leaves the loop over disparities at the first one without overlap (break for continue)", "cbca + interval whose negative end leaves the image"),
 "C10": ("/tmp/out4-C10", ["C10"], "", "bilateral spatial kernel centred on the geometric centre of the window", "even window width (sigma_space 1, 3, 5 or an image smaller than the nominal width with an even side)"),
 "C11": ("/tmp/out4-C11", ["C11"], "C11 gained smooth scenes with cbca_distance 9/12/17 (support regions of more than 256 pixels), one directed case per shard", "cbca counts the pixels of a region in a uint8 array", "support region of 256 pixels or more (cbca_distance >= 9 on a smooth area)"),
 "C12": ("/tmp/out4-C12", ["C12", "C19"], "same mechanism as C19-2; C12 now runs the checked configuration a second time on a fresh machine and compares the band names and values", "cost_volume_confidence_run appends the step suffix to the indicator already stored in the configuration", "suffixed confidence step executed more than once with the same configuration object (second run, multiscale, saved configuration fed back)"),
 "C13": ("/tmp/out4-C13", ["C13"], "C13 gained one directed case per shard with cbca_distance 1 (or 2) on images with masks on both sides", "cross_support starts the top arm at col - 1: top arm 0 where the pixel above is masked", "cbca_distance 1 + a masked pixel above a valid one + vertical flip"),
 "C14": ("/tmp/out4-C14", ["C14"], "", "sgm mismatch -> occlusion conversion reads the mask it is writing (propagates in scan order)", "occlusion, mismatch, mismatch chain along the scan order"),
 "C15": ("/tmp/out4-C15", ["C15", "C08"], "same mechanism as C08-2", "run_prepare downscales the user interval with floor division", "interval bound that is not a multiple of the total zoom"),
 "C16": ("/tmp/out4-C16", ["C16"], "", "add_no_data writes -9999 in every band of a pixel that has a NaN/inf sample in one band", "multiband image + NaN/inf nodata + non-finite sample in some bands only"),
 "C17": ("/tmp/out4-C17", ["C17"], "", "the second check_disparities_from_input call receives the left disparity again", "well-formed left grid + malformed right grid"),
 "C18": ("/tmp/out4-C18", ["C18", "C06"], "C18 pipelines gained a second refinement step after the filters (a third of the cases); C06 compares every random case with its rows and columns reversed (per-pixel rule)", "loop_refinement keeps its 'stopped' state across the pixels of a thread chunk", "refinement of non-sample disparities (second refinement) right after a stopped pixel; chunking differs with the thread count"),
 "C19": ("/tmp/out4-C19", ["C19"], "C19 draws invalid_disparity 'inf' / '-inf' as well", "save_config writes both infinities as 'inf'", "invalid_disparity -inf through the command line"),
 "C20": ("/tmp/out4-C20", ["C20"], "C20 step cases use suffixed step names (all steps, or the matching cost only) in four suffix styles", "filter margins read the step from pipeline_cfg['matching_cost'] literally", "suffixed matching_cost step + step != 1 (pandora2d) + a filter"),
}
ROUND5 = {
 "C01": ("/tmp/out5-C01", ["C08", "C14"], "same mechanism as C08-1 (the two halves of the validation step merged into one helper: left checked and filled before the right is checked). C01's own monitors (trace, structure symmetry, histories) do not see it: the order inside one step is a matter for C08 (mirror) and C14 (filling), which report it",
         "validation_run: check(left), fill(left), check(right), fill(right)", "validation with interpolated_disparity + real occlusions; only the right products change"),
 "C02": ("/tmp/out5-C02", ["C02"], "", "cv_masked skips the mask section unless BOTH images carry a mask (De Morgan slip)", "exactly one image of the pair has a mask"),
 "C03": ("/tmp/out5-C03", ["C03"], "", "the 'no computable cost' map is reduced over the integer-disparity planes only", "subpix 2/4 + pixel whose computable costs all sit at fractional disparities"),
 "C04": ("/tmp/out5-C04", ["C04", "C14"], "C04 gained the clause 'a pixel carrying a filled bit is never left without any of bits 4/5/8/9 by a later validation step' (the ownership monitor allowed a step to clear its own kind of bit)", "both interpolation classes replace clear+set by one XOR", "validation repeated with filling; pixel filled by the first pass and flagged again by the second"),
 "C05": ("/tmp/out5-C05", ["C05", "C01"], "C05's drawn pipelines use the four suffix styles (C01 reported it unchanged)", "the check loop strips the suffix with rsplit (text before the LAST dot)", "step name with two dots (filter.1.5)"),
 "C06": ("/tmp/out5-C06", ["C06"], "", "the invalid test is hoisted into a uint8 map (bits 8 and 9 truncated)", "refinement after validation + occluded / mismatched pixels"),
 "C07": ("/tmp/out5-C07", ["C07"], "", "the per-row 'invalid' buffer is allocated once and never cleared", "already-invalid pixel below a pixel the cross-check flags, in the same column"),
 "C08": ("/tmp/out5-C08", ["C08", "C18"], "", "cbca masks its images through astype(copy=False): the caller's float32 images receive NaN", "cbca + subpix 2/4 + masked pixel + validation"),
 "C09": ("/tmp/out5-C09", ["C09", "C12"], "C09's nested-interval pipelines now end with a confidence step in 60 % of the cases (C12 reported it unchanged)", "the ambiguity kernel normalises the cost volume in place", "ambiguity step + dissimilarity measure; the costs then depend on the global extrema, hence on the requested interval"),
 "C10": ("/tmp/out5-C10", ["C10"], "two directed multi-block median_for_intervals cases added (the random draws already reported it)", "median_for_intervals filters its bands in place block after block", "median_for_intervals + more than one 100-pixel block"),
 "C11": ("/tmp/out5-C11", ["C11"], "C11 gained the step-by-step use of ONE aggregation object over several calls, including after an in-place update of a dataset", "cross supports cached on the aggregation object under id(dataset)", "aggregation object reused after a dataset was updated in place (API use; pandora.run builds a new object per run)"),
 "C12": ("/tmp/out5-C12", ["C12"], "C12 gained volumes of 101-130 rows or columns (four per shard)", "risk computed in blocks of 100 rows, each normalised with its own cost extrema", "risk + more than 100 rows"),
 "C13": ("/tmp/out5-C13", ["C13", "C10"], "same mechanism as C10-3; C13 gained a directed wide scene with a bilateral filter and an invalid area larger than a chunk", "bilateral filter skips a chunk without valid centre and forgets to advance the column cursor", "bilateral + wide image + invalid area covering a 50x50 chunk of windows"),
 "C14": ("/tmp/out5-C14", ["C14", "C08"], "same mechanism as C01-5 / C08-1; C14 now compares both final maps with the run of the same pipeline without the filling option", "validation_run: check(left), fill(left), check(right), fill(right)", "validation with interpolated_disparity + real occlusions; right map only"),
 "C15": ("/tmp/out5-C15", ["C15"], "a third of the C15 cases run on a machine that has already checked and run another multiscale pipeline (other zoom, other marge)", "the multiscale object is created once per machine and kept", "same machine, two multiscale pipelines with different marge / scale_factor"),
 "C16": ("/tmp/out5-C16", ["C16"], "", "get_window leaves the 'outside' test to rasterio (a zero-length window is accepted)", "ROI abutting the image with a gap of exactly 0 pixels"),
 "C17": ("/tmp/out5-C17", ["C17"], "", "the set of mandatory attributes became a module constant updated in place", "a dataset lacking an attribute checked after any other dataset in the same process"),
 "C18": ("/tmp/out5-C18", ["C18", "C01"], "C18 histories now include the pipeline cut before its disparity step and a multiscale variant (C01 reported it unchanged)", "the per-run reset of left/right_disparity moved to __init__", "second run on one machine of a pipeline with a confidence step that stops before the disparity step, or is multiscale"),
 "C19": ("/tmp/out5-C19", ["C19", "C01"], "C19 renames the validation step (or all steps) with suffixes in half of the cases (C01 reported it unchanged)", "run_prepare sets right_disp_map unconditionally from the step literally named 'validation'", "validation step that only exists under a suffixed name"),
 "C20": ("/tmp/out5-C20", ["C20"], "", "bilateral margin truncated after the multiplication by the step", "step > 1 (pandora2d) + 3*sigma_space not an integer"),
}
ROUND6 = {
 "C01": ("/tmp/out6-C01", ["C01"], "", "check table: the multiscale transition leads to 'begin' instead of 'disp_map'", "pipeline whose multiscale step is not the last step, through configuration checking"),
 "C02": ("/tmp/out6-C02", ["C02"], "", "shift_right_img interpolates by hand with the two weights exchanged", "subpix 4, costs at quarter disparities"),
 "C03": ("/tmp/out6-C03", ["C03"], "C03 synthetic volumes now declare window sizes 1/3/5 (offset_row_col 0/1/2) with arbitrary flags on the border", "to_disp applies mask_border to the disparity dataset when the window is larger than 1 (border flags overwritten with 1)", "cost volume with a window larger than 1 whose border flags are not exactly 1 (volumes that did not go through cv_masked)"),
 "C04": ("/tmp/out6-C04", ["C04", "C13"], "", "validity_mask compares column coordinates with the position of the last column", "image coordinates that do not start at 0 (ROI read) + interval with max >= 0"),
 "C05": ("/tmp/out6-C05", ["C05"], "C05's table lists NaN (float and 'NaN' string) among the out-of-domain values of every strictly positive / bounded float parameter", "bilateral sigma domain test rewritten as 'if sigma <= 0: raise' (NaN passes)", "sigma_color 'NaN' / nan"),
 "C06": ("/tmp/out6-C06", ["C06"], "C06 gained the clause 'a received disparity strictly inside the interval that is not a sample and stays where it was is not flagged as stopped' (literal reading of the exactly-when clause)", "end-of-interval test made on the truncated sample index, before the is-sample test", "refinement of non-sample disparities (second refinement, bilateral filter before) lying between d_min and the next sample"),
 "C07": ("/tmp/out6-C07", ["C07", "C08", "C14"], "same mechanism as C08-1 / C01-5 / C14-5; C07's pipeline shards now keep a filling option in a third of the cases and watch what each of the two cross-checks receives", "validation_run: check(left), fill(left), check(right), fill(right)", "validation with interpolated_disparity; the right map is checked against an already filled left map"),
 "C08": ("/tmp/out6-C08", ["C08", "C15"], "", "prepare_pyramid reuses the left mask pyramid when the right image has no mask", "multiscale + a mask on exactly one image"),
 "C09": ("/tmp/out6-C09", ["C09"], "C09 gained per-pixel grids on scenes of more than 200 rows or columns (one directed case per shard)", "cv_masked masks the per-pixel ranges in blocks of 100 rows with an exclusive end computed as an inclusive one", "per-pixel grids + at least 100 rows; rows 99, 199, ... are not masked"),
 "C10": ("/tmp/out6-C10", ["C10"], "", "median_for_intervals builds its inner median filter once with the class default size", "median_for_intervals + filter_size other than 3"),
 "C11": ("/tmp/out6-C11", ["C11"], "", "the left image is masked after the 3x3 median filter instead of before", "left mask with an interior masked pixel whose sample differs from its neighbours"),
 "C12": ("/tmp/out6-C12", ["C12"], "", "the risk_min band name is built from the class-level default indicator", "suffixed risk step"),
 "C13": ("/tmp/out6-C13", ["C13", "C02"], "", "compute_mean_raster keeps float32 for the row prefix sums", "zncc + prefix sums above 2^24 (12-bit radiometry) + crop not starting at row 0 / flip"),
 "C14": ("/tmp/out6-C14", ["C14"], "", "sgm occlusion filling takes the absolute value of the neighbour when a single direction sees a valid pixel", "sgm + occlusion seeing exactly one valid pixel of negative disparity"),
 "C15": ("/tmp/out6-C15", ["C15"], "", "mask_invalid_disparities tests an explicit flag list that omits occlusion and mismatch", "validation before the multiscale step, without filling"),
 "C16": ("/tmp/out6-C16", ["C16"], "", "get_window unpacks the four margins in the order left, right, up, down", "ROI whose up margin differs from its right margin"),
 "C17": ("/tmp/out6-C17", ["C17"], "", "check_datasets compares the left column count with itself", "pair with equal rows and different columns"),
 "C18": ("/tmp/out6-C18", ["C18", "C12"], "same mechanism as C19-2 / C12-4; C18's second repetition now runs the very configuration object of the first one", "cost_volume_confidence_run appends the suffix to the indicator kept in the configuration", "suffixed confidence step + the same configuration object run twice"),
 "C19": ("/tmp/out6-C19", ["C19"], "C19 inputs now use five reference-system flavours (EPSG codes, projections on a bare ellipsoid, a geographic system) and compare them by definition, not by text", "write_data_array converts the CRS with to_string() (lossy for systems without authority code)", "input CRS without authority code that GDAL matches to an EPSG entry"),
 "C20": ("/tmp/out6-C20", ["C20"], "C20 draws the optional geometric_prior of the optimisation step", "optimization_check_conf returns early for an internal prior, before the margins are recorded", "optimization step with geometric_prior source internal"),
}
ROUND7 = {
 "C01": ("/tmp/out7-C01", ["C01"], "C01's two-pipeline histories now hand the COMPLETED configuration back with two steps exchanged (same verdict and content as on a new machine) and look again at the first returned configuration after the second check", "check_pipeline_section skips the machine check when the pipeline dict equals the machine's completed one (dict equality ignores the order)", "machine that has completed a check + the completed configuration re-checked with its steps in another order"),
 "C02": ("/tmp/out7-C02", ["C02"], "C02 gained the 'faint' texture (0..2 counts on a 3000 count level) at subpix 1", "compute_std_raster zeroes variances below float32 eps * E[x^2]", "zncc + windows with a tiny but non-zero relative variance"),
 "C03": ("/tmp/out7-C03", ["C03"], "a third of the C03 synthetic cases reuse the same disparity object for a second volume of the same shape and of the other type of measure", "WinnerTakesAll keeps the min/max rule of the first volume of a given shape", "one disparity object used for two volumes of equal shape and different type_measure (API use)"),
 "C04": ("/tmp/out7-C04", ["C04"], "a quarter of the C04 cause cases are the SECOND run on the same dataset objects after an in-place edit of their masks", "dilated no-data masks memoised under id(mask array)", "same dataset objects run twice with their masks edited in place in between"),
 "C05": ("/tmp/out7-C05", ["C01"], "reported by C01's new 'earlier result changed by a later check' clause; C05 itself checks every configuration right after its own call and on machines of its own, where nothing shows", "check_pipeline_section returns the machine's own dict, which the next check empties in place", "two checks on one machine, the first returned configuration looked at again"),
 "C06": ("/tmp/out7-C06", [], "NOT REPORTED: the changed kernel serves approximate_subpixel_refinement only, an entry point no pipeline reaches (the state machine never calls it); the statement quantifies over what a legal pipeline can reach", "approximate refinement reads its neighbour costs at dsp +- 1 instead of dsp +- subpix", "direct call of approximate_subpixel_refinement at subpix 2/4"),
 "C07": ("/tmp/out7-C07", ["C07"], "a third of the C07 synthetic pairs give the other map an interval that is not the mirror of the checked map's", "the mismatch search takes its disparities from the other map's interval, negated", "maps whose intervals are not opposite (right interval given by the user)"),
 "C08": ("/tmp/out7-C08", ["C08", "C02"], "half of the multiband C08 cases store the bands of the second image in another order (C02 reported it unchanged)", "sad/ssd cache the band positions on the instance, reused with the images exchanged", "multiband + band order differing between the images + validation"),
 "C09": ("/tmp/out7-C09", ["C09"], "three C09 end-to-end cases per shard give the right image its own interval, in a dataset without the optional disparity_source attribute, and judge the right map against it", "run_prepare decides 'the right image has its own disparities' from the disparity_source attribute", "right dataset with a disparity variable but no disparity_source attribute + validation"),
 "C10": ("/tmp/out7-C10", ["C10"], "C10's bilateral cases then call filter_bilateral directly on the same object with another sigma_space of equal window width", "spatial kernel cached per window width on the filter object", "direct calls of filter_bilateral with different sigma_space of equal width on one object"),
 "C11": ("/tmp/out7-C11", ["C11"], "every fifth C11 case gives the right image another mask convention (valid 5, no data 7)", "cbca reads the valid-pixel code once, from the left dataset", "left and right datasets with different valid_pixels attributes"),
 "C12": ("/tmp/out7-C12", ["C12"], "C12 gained the scale-free relation: the same volume times 2^-30 must give the same ambiguity / risk bands", "ambiguity kernels replace a cost range below float32 eps by 1", "cost volume whose global range is below 1.2e-7"),
 "C13": ("/tmp/out7-C13", ["C02"], "reported by C02's new step-by-step workload (one matching-cost object over two scenes, the second written into the buffers of the first); C13's own runs go through the machine, which builds a new object per run", "shifted right images memoised under the identity of the image array", "sad/ssd + subpix > 1 + the same numpy buffer refilled between two calls on one matching-cost object"),
 "C14": ("/tmp/out7-C14", ["C14"], "", "mismatch test by magnitude (>= 512) instead of bit 9", "pixel carrying bit 10 or 11 without bit 9 (regularised intervals) + filling"),
 "C15": ("/tmp/out7-C15", ["C14"], "reported by C14 (the pyramid fills masked pixels with the sgm filling helper); C15's own monitors compare levels that are wrong in the same way on both sides", "find_valid_neighbors bounds its paths by the SMALLER image side", "non-square image + run of invalid pixels longer than the short side"),
 "C16": ("/tmp/out7-C16", ["C16"], "", "'nothing to flag' tested with np.any over the index arrays", "no input mask + a single no-data sample at row 0, column 0"),
 "C17": ("/tmp/out7-C17", ["C17"], "C17's multiband bases now have one entirely-NaN band (first band on one image, last on the other)", "the all-NaN test looks at the first band only", "multiband image whose first band is entirely NaN"),
 "C18": ("/tmp/out7-C18", [], "NOT REPORTED: needs NaN inside the disparity grids, whose legality no document states (the generators never produce it)", "the per-pixel grids are no longer copied at mono-resolution and their NaN are overwritten in place", "disparity grids containing NaN"),
 "C19": ("/tmp/out7-C19", ["C19"], "every other command-line run of C19 is verbose (-v)", "an INFO log helper masks the validity flags in place before they are written", "INFO logging effective during save_results"),
 "C20": ("/tmp/out7-C20", ["C20"], "suffixes that name another step kind ('optimization.before_filter') are drawn in C20, C01 and C05", "cumulative / non-cumulative decided by the substring 'filter' in the step name", "non-filter step whose suffix contains 'filter'"),
}
def main():
    table = json.load(open(sys.argv[1])) if len(sys.argv) > 1 else None
    items = [(pid, 1, v) for pid, v in ROUND1.items()] + [(pid, 2, v) for pid, v in ROUND2.items()] + [(pid, 3, v) for pid, v in ROUND3.items()]
    items += [(pid, "3b", v) for pid, v in ROUND3B.items()] + [(pid, 4, v) for pid, v in ROUND4.items()] + [(pid, 5, v) for pid, v in ROUND5.items()] + [(pid, 6, v) for pid, v in ROUND6.items()] + [(pid, 7, v) for pid, v in ROUND7.items()]
    for pid, rnd, (src, caught, strengthened, what, needs) in items:
        name = f"{pid}-{rnd}"
        dst = os.path.join(V, "seeded", name)
        os.makedirs(dst, exist_ok=True)
        for f in ("patch.diff", "demo.py", "notes.md", "patch.as_written_by_the_agent.diff"):
            if os.path.exists(os.path.join(src, f)):
                shutil.copy(os.path.join(src, f), os.path.join(dst, f))
        ver = {}
        vf = f"/verif/.work/seed_verify/{name}.json"
        if os.path.exists(vf):
            ver = json.load(open(vf))
        meta = {
            "property": pid, "name": name, "origin": "independent sub-agent given only the property text and a scratch worktree" + (" (second round: also shown the first-round patch, to avoid repeating it)" if rnd == 2 else "") + (" (third round: shown the two earlier patches, asked for another mechanism: step interactions, state between calls, copy/view, dtype, coordinates)" if str(rnd).startswith("3") else "") + (" (fourth round: shown the three earlier patches, asked for less-travelled paths: non-default parameters, domain extremes, two entry points, dtypes, coordinates, NaN/inf, a step present twice)" if rnd == 4 else "") + (" (fifth round: shown all earlier patches, asked for the slip that comes with a well-meant refactoring or optimisation)" if rnd == 5 else "") + (" (sixth round: shown the five earlier patches, asked for a clause or quantified dimension none of them touched, wrong values preferred to crashes)" if rnd == 6 else "") + (" (seventh round: told what an automated checker already explores, asked for a change it would most plausibly miss)" if rnd == 7 else ""),
            "change": what, "needs_to_manifest": needs,
            "confirmed_by_me": {
                "patch_applies_to_repo_HEAD": ver.get("patch_applies_to_HEAD"),
                "demo_exit_without_change": ver.get("demo_exit_without_change"),
                "demo_exit_with_change": ver.get("demo_exit_with_change"),
                "repo_stable_tests_passing_with_change": f"{ver.get('stable_tests_passing_with_change')}/{ver.get('stable_tests')}",
                "how": "tools/verify_seed.sh: fresh worktree of /repo HEAD, demo, git apply, demo, full baseline test-suite (junit compared with BASELINE stable_pass)",
            },
            "caught_by_quick_checks": caught,
            "how_run": "tools/seeded.sh <patch.diff> <ID...>: scratch copy of /repo/pandora + patch, ./check <ID> with PANDORA_VERIF_REPO pointing at it",
            "check_strengthened_because_of_it": strengthened or None,
        }
        if os.path.exists(os.path.join(dst, "patch.as_written_by_the_agent.diff")):
            meta["rebased"] = ("patch.diff is the agent's change carried over by hand to the repository HEAD after fix b4edce1 rewrote the same "
                               "two lines (same edit, context updated); the original is kept as patch.as_written_by_the_agent.diff")
        if name == "C01-3":
            meta["neutralised_by"] = "a1b4bed"
        json.dump(meta, open(os.path.join(dst, "meta.json"), "w"), indent=1)
    print("collected", len(items))
main()
