#!/venv/bin/python
"""Rewrites the section of DESIGN.md between the SEEDED-TABLE markers from /verif/seeded/*/meta.json and MATRIX.md."""
import glob, json, os, re
V = "/verif"
rows = []
matrix = {}
mp = os.path.join(V, "seeded", "MATRIX.md")
if os.path.exists(mp):
    for line in open(mp):
        m = re.match(r"\| (C\d+-\w+) \| (C\d+) \| rc=(\d) \| (.*) \|", line)
        if not m and "| n/a |" in line:
            continue
        if m:
            matrix.setdefault(m.group(1), []).append((m.group(2), int(m.group(3)), m.group(4).strip()))
for mf in sorted(glob.glob(os.path.join(V, "seeded", "C*", "meta.json"))):
    m = json.load(open(mf))
    name = m["name"]
    got = matrix.get(name, [])
    caught = [f"{c} ({cl})" if cl else c for c, rc, cl in got if rc == 1]
    missed = [c for c, rc, cl in got if rc != 1]
    if m.get("neutralised_by"):
        rows.append(f"| {name} | {m['change']} | {m['needs_to_manifest']} | behaviour-neutral since repository fix {m['neutralised_by']} | {m.get('check_strengthened_because_of_it') or ''} |")
        continue
    cell = "; ".join(caught) if caught else ("-" if not m["caught_by_quick_checks"] else ", ".join(m["caught_by_quick_checks"]))
    if missed:
        cell += f" — not by {', '.join(missed)}"
    st = m.get("check_strengthened_because_of_it") or ""
    rows.append(f"| {name} | {m['change']} | {m['needs_to_manifest']} | {cell} | {st} |")
table = ["| seeded change | what was changed | what it needs to manifest | quick checks that report it (first clause) | strengthening it caused |",
         "|---|---|---|---|---|"] + rows
p = os.path.join(V, "DESIGN.md")
s = open(p).read()
b, e = "<!-- SEEDED-TABLE-BEGIN -->", "<!-- SEEDED-TABLE-END -->"
assert b in s and e in s
s = s[: s.index(b) + len(b)] + "\n" + "\n".join(table) + "\n" + s[s.index(e):]
open(p, "w").write(s)
print(len(rows), "rows")
