#!/bin/sh
# Runs the repository's baseline test-suite (hooks off: there are none) and compares with BASELINE.json stable_pass.
OUT=${1:-/verif/.work/baseline.junit.xml}
mkdir -p "$(dirname "$OUT")"
cd /repo && env -u PANDORA_VERIF /venv/bin/python -m pytest -ra -q -p no:cacheprovider --timeout=900 --continue-on-collection-errors --junitxml="$OUT" > "$OUT.log" 2>&1
echo "pytest exit=$?"
/venv/bin/python - "$OUT" <<'PY'
import json, sys, xml.etree.ElementTree as ET
base = json.load(open('/root/.vp/BASELINE.json'))
stable = set(base['stable_pass'])
root = ET.parse(sys.argv[1]).getroot()
res = {}
for tc in root.iter('testcase'):
    name = f"{tc.get('classname')}::{tc.get('name')}"
    bad = any(c.tag in ('failure', 'error', 'skipped') for c in tc)
    res[name] = not bad
missing = [t for t in stable if not res.get(t, False)]
print(f"stable_pass={len(stable)} passing_now={sum(1 for t in stable if res.get(t))} not_passing={len(missing)}")
for t in missing[:20]:
    print("  NOT PASSING:", t)
sys.exit(1 if missing else 0)
PY
