#!/venv/bin/python
"""Regenerates MANIFEST.json from the table below (claimed checks = modules present in pvmon/props)."""
import json, os, subprocess, sys
from pathlib import Path

V = Path(__file__).resolve().parent.parent
BASE = json.load(open("/root/.vp/BASELINE.json"))

CHECKS = {
    "C01": ("history + executable model (3-state DFA, expected callback trace) over enumerated and sampled "
            "words; invariant at the hook (state/leftover transitions) after every check and run",
            "bounded-exhaustive acceptance (all words <= 5 steps quick / 7 thorough, bare and with free-form suffixes) + traced execution "
            "of accepted words + check/run histories of one and of two pipelines on one machine; beyond the bound: sampled", "3 C01"),
}
CHECKS.update({
    "C05": ("executable model (declarative parameter-domain table) evaluated on every check_conf call of the "
            "workload; deep-comparison monitors for mutation, order, defaults and idempotence",
            "complete over the table rows x boundary/wrong-type values, sampled combinations, shuffled orders, "
            "two entry points; don't-care cells never judged", "3 C05"),
    "C20": ("executable model (margin table) + icontract class invariant on GlobalMargins evaluated on every "
            "mutation during the workload; monotonicity relation over one-step extensions",
            "all accepted words <= 4/5 steps x parameter draws (incl. omitted parameters judged against the documented defaults), with and without validation, step 1-3 with suffixed names, CLI runs", "3 C20"),
})
CHECKS.update({
    "C02": ("reference-model monitor: left/right cost volumes captured at the matching_cost step hook and compared "
            "element-wise with a brute-force per-pixel reference; NUMBA_BOUNDSCHECK + as_strided bounds monitor on a share of the shards",
            "generated pairs over measures x windows x subpix x interval kinds (scalar, grids incl. non-integer bounds) x masks x bands (incl. permuted right bands, NaN no-data samples for zncc); exact for SAD/census", "3 C02"),
})
CHECKS.update({
    "C03": ("reference-model monitor (first arg-optimum over the whole array, no blocks) on synthetic volumes and at the "
            "disparity step hook of traced pipelines; before/after comparison of the cost volume, flags and bands",
            "shapes straddling the 100-pixel blocks, all 27 {NaN,0,1}^3 patterns, min/max, NaN/odd invalid_disparity, 257-321 samples, four memory layouts, infinite costs, windows 1/3/5", "3 C03"),
    "C04": ("invariants at the step hooks of traced runs: cause oracle for bits 0/1/2/6/7, three-way equivalence before "
            "validation, bit-ownership monitor (before ^ after within the step's owned bits) after every later step",
            "masked pairs x windows x intervals/grids (incl. float grids at subpix 2/4); random legal pipelines with repeated refinement/filter/validation; cost-volume flags watched during later steps", "3 C04"),
})
CHECKS.update({
    "C06": ("reference-model monitor (closed forms of refinement.rst, float64) on the datasets captured around every "
            "refinement execution: exhaustive cost triples, random volumes/maps, traced pipelines",
            "complete over {NaN,0..3}^3 x type x method x subpix x position; random and pipeline cases beyond", "3 C06"),
    "C07": ("reference-model monitor (three-way classification of the statement, rounding convention not imposed) on "
            "synthetic map pairs and at the validation step hook of traced pipelines, both directions",
            "maps with integer/quarter/half disparities, NaN/invalid entries, thresholds, intervals, offsets", "3 C07"),
    "C14": ("reference-model monitor on every filling pass (pass functions found by introspection and wrapped): scan-line "
            "visibility oracle, value bound, flag moves; whole-step clauses at the class boundary",
            "every layout class of valid/invalid/8/9 pixels, both methods; traced pipelines with filling", "3 C14"),
})
CHECKS.update({
    "C10": ("reference-model monitor (per-pixel nan-median / Gaussian-weighted mean over the valid window) on the datasets "
            "captured around every filter execution; untouched-set and mask invariants",
            "map sizes around the 50/100-pixel block boundaries, odd/even bilateral widths, invalid pixels anywhere incl. areas larger than a block", "3 C10"),
    "C11": ("reference-model monitor (brute-force combined cross-support region walk) on the cost volumes captured around "
            "the aggregation step; metamorphic plane-independence relation",
            "SAD/census exact, ZNCC 1e-4; masks, subpix, distances 1-8 (9-17 on smooth scenes), intensities 1-200, intervals wider than the image, one aggregation object reused over several calls", "3 C11"),
})
CHECKS.update({
    "C12": ("reference-model monitor (formulas of cost_volume_confidence.rst with an epsilon bracket on every threshold) on "
            "the datasets captured around every confidence step; metamorphic comparison with the pipeline without the steps",
            "four confidence classes on synthetic volumes (min/max, NaN, ties, nearly constant, > 100 rows/columns), pipelines with 0-4 steps and free-form suffixes, the same configuration run twice", "3 C12"),
})
CHECKS.update({
    "C16": ("reference-model monitor: independent full read of the same files (rasterio + numpy) compared with the dataset "
            "returned by create_dataset_from_inputs; ROI = crop of the full read; exhaustive ROI x margins sweep of get_window",
            "generated rasters (dtypes, bands, nodata kinds, mask values, grids, classif/segm) + 294 030 ROI/margin combinations on a 5x4 raster", "3 C16"),
    "C17": ("executable model (predicate well_formed written from the statement) compared in both directions with the "
            "exception/return outcome of check_datasets and check_input_section; callback spy for 'refused before matching'",
            "every single fault of the catalogue on several bases, sampled pairs", "3 C17"),
})
CHECKS.update({
    "C19": ("observation at the save_results boundary (wrapper captures the datasets that are saved) compared with an "
            "independent read of the output tree; replay relation: cfg/config.json fed back must reproduce the rasters; "
            "console entry point run as a subprocess",
            "generated configurations (bands, validation/filling, NaN / infinite invalid_disparity, grids, five reference-system flavours, masks, suffixed steps) + save_results on synthetic products of 19 sizes", "3 C19"),
})
CHECKS.update({
    "C08": ("metamorphic monitor over pairs of recorded executions: run(A,B,[a,b]) vs run(B,A,[-b,-a]) compared bit for bit "
            "(four product pairs), plus the run without the validation step",
            "random legal pipelines with validation/filling, asymmetric masks, grids on both sides, multiband", "3 C08"),
    "C09": ("metamorphic monitor over pairs of recorded executions differing only by the interval (nested scalars, grids vs "
            "hull, constant grids) on the captured cost volumes; containment invariants at the step hooks of end-to-end runs",
            "all measures x subpix x [cbca]; end-to-end pipelines with refinement, filters, filling", "3 C09"),
    "C13": ("metamorphic monitor: whole-image run vs crop runs (even/odd offsets, ROI-style coordinates) compared bit for bit "
            "on the cone-interior pixels; vertical-flip relation",
            "local pipelines (matching cost, cbca, wta, refinement, median, bilateral, cross-checking), 5 crops per scene", "3 C13"),
})
CHECKS.update({
    "C15": ("history + model on the tracer log of every scale pass: pass count, image sizes, coarsest interval, per-pixel "
            "range rule (existential over the 3x3 coarse neighbourhood of the geometric parent), steps after the multiscale "
            "step, deep comparison of the input datasets before/after the run",
            "num_scales 2-4, scale_factor 2-3, marge 0-3, sizes not divisible by the factor, mono/multiband, masks", "3 C15"),
})
CHECKS.update({
    "C18": ("metamorphic monitor over schedules and histories: product digests of the same cases compared across worker "
            "processes started with NUMBA_NUM_THREADS 1/2/3/4/8/16, PANDORA_NUMBA_PARALLEL=False and without the harness's cache "
            "patch, across repetitions and fresh/reused machines, and across histories interleaving other pipelines on other "
            "machines; input datasets digested before/after every run",
            "schedules sampled (thread counts, threading layer, case order, load, repetitions incl. the same configuration object), not enumerated", "3 C18"),
})
NOTES = {}

def main():
    props = [json.loads(l) for l in open(V / "properties.jsonl")]
    checks, na = [], []
    for p in props:
        pid = p["id"]
        mod = V / "pvmon" / "props" / f"{pid.lower()}.py"
        if mod.exists() and pid in CHECKS:
            tech, text, ref = CHECKS[pid]
            checks.append({
                "property_id": pid,
                "quick_cmd": f"./check {pid} --tier quick",
                "thorough_cmd": f"./check {pid} --tier thorough",
                "evidence_file": f"evidence/{pid}.json",
                "replay_cmd_template": f"./check {pid} --replay {{path}}",
                "engine": "pvmon",
                "level_claimed": {"category": "exploration", "text": text, "design_ref": f"DESIGN.md section {ref}"},
                "level_note": "runtime monitoring: holds on the executions produced (see evidence), nothing is proved; "
                              "trusted base: the reference oracles in pvmon/refs and pvmon/props, numpy, the interpreter",
                "technique": "runtime monitoring: " + tech,
            })
        else:
            na.append({"property_id": pid, "reason": "monitor not built yet in this session (design in DESIGN.md section 3); "
                       "will be claimed once its check exists"})
    man = {
        "version": 1,
        "setup_cmd": "/venv/bin/pip install -q --no-index --find-links /opt/veriftools/wheels --target /verif/.deps icontract jsonschema",
        "hooks": {
            "guard": "PANDORA_VERIF",
            "enable": "no source hooks: monitors wrap the public API and the callbacks named in the transition tables; "
                      "workers set PANDORA_VERIF=1 only for their own bookkeeping",
            "baseline_off_cmd": BASE["cmd"],
            "source_commits": [],
            "add_only": True,
        },
        "engines": [{"name": "pvmon", "path": "pvmon/", "serves_properties": [c["property_id"] for c in checks],
                     "kind_free_text": "runtime monitors (reference-model oracles, metamorphic relations, history checkers, "
                                       "NUMBA_BOUNDSCHECK + as_strided bounds monitor) driven by seeded generators in sharded subprocesses"}],
        "checks": checks,
        "not_applicable": na,
        "notes": "exit 0 held / 1 VIOLATION / 2 INCONCLUSIVE (gating class not reached, shard watchdog). known_findings.json lists "
                 "recorded defects (status known) and repaired ones (status fixed).",
    }
    (V / "MANIFEST.json").write_text(json.dumps(man, indent=1) + "\n")
    sys.path.insert(0, str(V / ".deps"))
    import jsonschema
    jsonschema.validate(man, json.load(open("/root/.vp/MANIFEST.schema.json")))
    print("MANIFEST ok:", len(checks), "checks,", len(na), "not_applicable")

main()
