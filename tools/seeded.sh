#!/bin/sh
# tools/seeded.sh <patch.diff> <ID> [<ID> ...] : runs the quick checks against a scratch copy of /repo carrying the patch
PATCH="$1"; shift
D=$(mktemp -d /tmp/pvseed-XXXXXX)
cp -r /repo/pandora "$D/pandora"
find "$D" -name __pycache__ -prune -exec rm -rf {} + 2>/dev/null
if ! patch -s -p1 -d "$D" < "$PATCH"; then echo "PATCH DOES NOT APPLY"; rm -rf "$D"; exit 9; fi
cd /verif
for ID in "$@"; do
  OUT=$(PANDORA_VERIF_REPO="$D" ./check "$ID" --no-evidence 2>&1); RC=$?
  echo "== $ID rc=$RC"
  echo "$OUT" | grep -E "VIOLATION|INCONCLUSIVE|violated|KNOWN|held" | head -4
done
rm -rf "$D"
