#!/bin/sh
# tools/verify_seed.sh <ID> [srcdir] : independent confirmation of a seeded change (patch applies to /repo HEAD, the
# demonstration passes without it and fails with it, the repository's own test-suite still passes with it).
ID=$1; SRC=${2:-/tmp/out-$ID}; TAG=${3:-$ID-1}
W=/tmp/vs-$TAG
OUT=/verif/.work/seed_verify; mkdir -p $OUT
git -C /repo worktree remove --force $W 2>/dev/null
git -C /repo worktree add -q $W HEAD || exit 3
cd $W
export PYTHONPATH=$W
CLEAN_RC=$( (timeout 1800 /venv/bin/python $SRC/demo.py > $OUT/$TAG.demo_clean.log 2>&1; echo $?) )
if git apply --check $SRC/patch.diff 2>/dev/null; then APPLIES=true; git apply $SRC/patch.diff; else APPLIES=false; fi
BUG_RC=$( (timeout 1800 /venv/bin/python $SRC/demo.py > $OUT/$TAG.demo_bug.log 2>&1; echo $?) )
timeout 3000 /venv/bin/python -m pytest -q -p no:cacheprovider --timeout=900 --continue-on-collection-errors --junitxml=$OUT/$TAG.junit.xml > $OUT/$TAG.pytest.log 2>&1
/venv/bin/python - "$OUT/$TAG.junit.xml" "$TAG" "$CLEAN_RC" "$BUG_RC" "$APPLIES" <<'PY' > $OUT/$TAG.json
import json, sys, xml.etree.ElementTree as ET
base = json.load(open('/root/.vp/BASELINE.json')); stable = set(base['stable_pass'])
res = {}
try:
    for tc in ET.parse(sys.argv[1]).getroot().iter('testcase'):
        res[f"{tc.get('classname')}::{tc.get('name')}"] = not any(c.tag in ('failure','error','skipped') for c in tc)
except Exception as e:
    res = {}
missing = sorted(t for t in stable if not res.get(t, False))
print(json.dumps({"id": sys.argv[2], "demo_exit_without_change": int(sys.argv[3]), "demo_exit_with_change": int(sys.argv[4]),
                  "patch_applies_to_HEAD": sys.argv[5] == "true", "stable_tests": len(stable), "stable_tests_passing_with_change": len(stable) - len(missing),
                  "not_passing": missing[:10]}, indent=1))
PY
cd /; git -C /repo worktree remove --force $W
cat $OUT/$TAG.json
