#!/bin/sh
# tools/sweep.sh <tier> <seeds...> : runs every check with each seed, prints one line per run
TIER=$1; shift
for S in "$@"; do
  for ID in C01 C02 C03 C04 C05 C06 C07 C08 C09 C10 C11 C12 C13 C14 C15 C16 C17 C18 C19 C20; do
    OUT=$(VERIF_SEED=$S ./check $ID --tier $TIER --no-evidence 2>&1)
    RC=$?
    echo "seed=$S $ID tier=$TIER rc=$RC $(echo "$OUT" | grep -E '^\[C[0-9]+\] tier' | sed 's/.*evaluations=/evaluations=/')"
    if [ $RC -ne 0 ]; then echo "$OUT" | grep -E "VIOLATION|INCONCLUSIVE|violated|KNOWN" | head -8; fi
  done
done
