"""pytest plugin (DESIGN.md 6.3): runs the repository's own tests with the step-level monitors of C03, C06, C07,
C10, C14 wrapped around the step classes' entry points.  Hand-made fixtures that are outside a monitor's domain are
skipped and counted (preconditions below).  Usage (thorough tier of the checks listed above, or by hand):

    cd /repo && PYTHONPATH=/repo:/verif:/verif/.deps /venv/bin/python -m pytest -p pvmon.pytest_plugin tests/test_filter.py

Results are written to $PVMON_PLUGIN_OUT (JSON): evaluations per monitor, skipped (out of domain), violations."""
from __future__ import annotations

import json
import os

import numpy as np

from pvmon import bootstrap  # noqa: F401
from pvmon.worker import Ctx

_ctx = Ctx("PLUGIN", {"seed": 0, "tier": "thorough", "mode": "A"})
_undo = []
INVALID = 0b1111000011


def _wrap(cls, name, make):
    orig = cls.__dict__.get(name)
    if orig is None:
        return
    setattr(cls, name, make(orig))
    _undo.append((cls, name, orig))


def pytest_configure(config):
    from pandora import disparity, filter as flt, refinement, validation
    from pvmon.props import c03, c06, c07, c10, c14

    # ---- C03: winner-takes-all -------------------------------------------------------------------------
    def mk_wta(orig):
        def to_disp(self, cv, img_left=None, img_right=None):
            before = cv.copy(deep=True)
            before.attrs = dict(cv.attrs)
            out = orig(self, cv, img_left, img_right)
            try:
                if "validity_mask" not in before or "type_measure" not in before.attrs:
                    _ctx.ood()
                else:
                    _ctx.current_case = {"monitor": "C03", "test": os.environ.get("PYTEST_CURRENT_TEST", "")}
                    c03.judge(_ctx, _ctx.current_case, before, cv, out, self._invalid_disparity, before.attrs["type_measure"],
                              {"from": "repo-tests"})
                    _ctx.count("C03_evaluations")
            except Exception as exc:  # pylint: disable=broad-except
                _ctx.inconclusive.append(f"C03 monitor error: {exc!r}")
            return out
        return to_disp
    _wrap(disparity.AbstractDisparity.disparity_methods_avail["wta"], "to_disp", mk_wta)

    # ---- C10: filters ----------------------------------------------------------------------------------
    def mk_filter(method):
        def deco(orig):
            def filter_disparity(self, disp, img_left=None, img_right=None, cv=None):
                d0 = disp["disparity_map"].data.copy()
                m0 = disp["validity_mask"].data.copy()
                c0 = disp["confidence_measure"].data.copy() if "confidence_measure" in disp else None
                res = orig(self, disp, img_left, img_right, cv)
                try:
                    names = [str(x) for x in disp.coords["indicator"].data] if "confidence_measure" in disp else None
                    _ctx.current_case = {"monitor": "C10", "test": os.environ.get("PYTEST_CURRENT_TEST", "")}
                    c10.judge(_ctx, _ctx.current_case, {"from": "repo-tests"}, method, self.cfg, d0, m0, disp["disparity_map"].data,
                              disp["validity_mask"].data, c0, disp["confidence_measure"].data if c0 is not None else None, names)
                    _ctx.count("C10_evaluations")
                except Exception as exc:  # pylint: disable=broad-except
                    _ctx.inconclusive.append(f"C10 monitor error: {exc!r}")
                return res
            return filter_disparity
        return deco
    _wrap(flt.AbstractFilter.filter_methods_avail["median"], "filter_disparity", mk_filter("median"))
    _wrap(flt.AbstractFilter.filter_methods_avail["bilateral"], "filter_disparity", mk_filter("bilateral"))

    # ---- C06: refinement -------------------------------------------------------------------------------
    def mk_ref(orig):
        def subpixel_refinement(self, cv, disp):
            d0 = disp["disparity_map"].data.copy()
            m0 = disp["validity_mask"].data.copy()
            res = orig(self, cv, disp)
            try:
                costs = cv["cost_volume"].data
                disps = cv.coords["disp"].data
                valid = (m0 & INVALID) == 0
                # precondition: every valid pixel carries a disparity inside the sampled range with a finite cost
                pos = np.rint((d0 - disps[0]) * cv.attrs["subpixel"])
                okdom = bool(np.all((pos[valid] >= 0) & (pos[valid] < len(disps))))
                if not okdom:
                    _ctx.ood()
                else:
                    _ctx.current_case = {"monitor": "C06", "test": os.environ.get("PYTEST_CURRENT_TEST", "")}
                    c06.judge(_ctx, _ctx.current_case, self._refinement_method_name, costs, disps, cv.attrs["type_measure"],
                              int(cv.attrs["subpixel"]), d0, m0, disp["disparity_map"].data, disp["validity_mask"].data,
                              disp["interpolated_coeff"].data, {"from": "repo-tests"})
                    _ctx.count("C06_evaluations")
            except Exception as exc:  # pylint: disable=broad-except
                _ctx.inconclusive.append(f"C06 monitor error: {exc!r}")
            return res
        return subpixel_refinement
    _wrap(refinement.AbstractRefinement, "subpixel_refinement", mk_ref)

    # ---- C07: cross-checking ---------------------------------------------------------------------------
    def mk_cc(orig):
        def disparity_checking(self, dataset_left, dataset_right, img_left=None, img_right=None, cv=None):
            dL = dataset_left["disparity_map"].data.copy()
            mL = dataset_left["validity_mask"].data.copy()
            dR = dataset_right["disparity_map"].data.copy()
            di = dataset_left["disparity_interval"].data.copy() if "disparity_interval" in dataset_left else None
            out = orig(self, dataset_left, dataset_right, img_left, img_right, cv)
            try:
                valid = (mL & INVALID) == 0
                if di is None or not np.isfinite(dL[valid]).all():
                    _ctx.ood()
                else:
                    band = None
                    if "confidence_measure" in out and "confidence_from_left_right_consistency" in list(out.coords["indicator"].data):
                        band = out["confidence_measure"].sel(indicator="confidence_from_left_right_consistency").data
                    _ctx.current_case = {"monitor": "C07", "test": os.environ.get("PYTEST_CURRENT_TEST", "")}
                    c07.judge(_ctx, _ctx.current_case, {"from": "repo-tests"}, dL, mL, dR, float(self._threshold), int(di[0]), int(di[1]),
                              int(dataset_left.attrs["offset_row_col"]), out["validity_mask"].data, band, out["disparity_map"].data)
                    _ctx.count("C07_evaluations")
            except Exception as exc:  # pylint: disable=broad-except
                _ctx.inconclusive.append(f"C07 monitor error: {exc!r}")
            return out
        return disparity_checking
    _wrap(validation.AbstractValidation.validation_methods_avail["cross_checking_accurate"], "disparity_checking", mk_cc)

    # ---- C14: filling passes ---------------------------------------------------------------------------
    c14.install_pass_hooks(_ctx)


def pytest_runtest_teardown(item):
    from pvmon.props import c14

    for p in list(c14._passes):  # pylint: disable=protected-access
        try:
            _ctx.current_case = {"monitor": "C14", "test": item.nodeid}
            c14.judge_pass(_ctx, _ctx.current_case, {"from": "repo-tests", "test": item.nodeid}, p)
            _ctx.count("C14_evaluations")
        except Exception as exc:  # pylint: disable=broad-except
            _ctx.inconclusive.append(f"C14 monitor error: {exc!r}")
    c14._passes.clear()  # pylint: disable=protected-access
    for v in _ctx.violations:
        v.setdefault("test", item.nodeid)


def pytest_sessionfinish(session, exitstatus):
    out = os.environ.get("PVMON_PLUGIN_OUT")
    res = _ctx.result()
    res["pytest_exitstatus"] = int(exitstatus)
    if out:
        with open(out, "w") as f:
            json.dump(res, f, default=str)
    print(f"\n[pvmon plugin] monitor evaluations: { {k: v for k, v in res['counters'].items() if k.endswith('_evaluations')} } "
          f"out_of_domain={res['out_of_domain']} violations={len(res['violations'])} monitor_errors={len(res['inconclusive'])}")
    for v in res["violations"][:10]:
        print("   ", v.get("test"), v["clause"], str(v["what"])[:200])
