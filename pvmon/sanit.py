"""Sanitiser mode B (DESIGN.md 2.7): NUMBA_BOUNDSCHECK=1 is set by the orchestrator in the
environment; this module adds the bounds monitor on numpy.lib.stride_tricks.as_strided.

The monitor builds the requested view and compares its byte extent with the byte extent of the
array that was passed in.  A view that leaves its array is memory the caller does not own: the
violation is attributed to the property whose workload was running."""
from __future__ import annotations

import traceback

import numpy as np

_state = {"ctx": None, "views": 0, "bad": 0, "orig": None}


def _extent(a: np.ndarray):
    """Lowest and one-past-highest byte address touched by array a."""
    lo = hi = a.__array_interface__["data"][0]
    if a.size == 0:
        return lo, lo
    for n, s in zip(a.shape, a.strides):
        if s > 0:
            hi += (n - 1) * s
        else:
            lo += (n - 1) * s
    return lo, hi + a.itemsize


def install(ctx) -> None:
    if _state["orig"] is not None:
        _state["ctx"] = ctx
        return
    orig = np.lib.stride_tricks.as_strided
    _state["orig"] = orig
    _state["ctx"] = ctx

    def monitored_as_strided(x, shape=None, strides=None, subok=False, writeable=True):
        view = orig(x, shape=shape, strides=strides, subok=subok, writeable=writeable)
        try:
            base = np.asarray(x)
            blo, bhi = _extent(base)
            vlo, vhi = _extent(view)
            _state["views"] += 1
            if view.size and (vlo < blo or vhi > bhi):
                _state["bad"] += 1
                c = _state["ctx"]
                if c is not None:
                    c.violation(
                        "as_strided-view-leaves-its-array",
                        f"view shape={view.shape} strides={view.strides} spans bytes [{vlo - blo},{vhi - blo}) "
                        f"of an array of {bhi - blo} bytes (shape={base.shape}, strides={base.strides})",
                        situation="as_strided",
                        stack="".join(traceback.format_stack(limit=6)[:-1])[-1500:],
                    )
        except Exception:  # pylint: disable=broad-except
            pass
        return view

    np.lib.stride_tricks.as_strided = monitored_as_strided


def report(ctx) -> None:
    ctx.count("as_strided_views_checked", _state["views"])
    ctx.count("as_strided_views_out_of_bounds", _state["bad"])
