"""Shared seeded input generators (DESIGN.md 2.5).  Everything is derived from a numpy Generator
handed in by the caller, so a case id regenerates its inputs exactly."""
from __future__ import annotations

import copy
import hashlib

import numpy as np
import xarray as xr

BAND_NAMES = ["r", "g", "b", "nir"]


# ----------------------------------------------------------------------------------------------
# datasets
# ----------------------------------------------------------------------------------------------
def make_dataset(im, disp=None, msk=None, bands=None, row0=0, col0=0, disparity_source="auto", extra_attrs=None):
    """Build a dataset the way create_dataset_from_inputs does (documented in as_an_api.rst).

    im: (rows, cols) or (bands, rows, cols); disp: None | (min,max) ints | (grid_min, grid_max)."""
    im = np.asarray(im, dtype=np.float32)
    if im.ndim == 2:
        rows, cols = im.shape
        data = {"im": (["row", "col"], im)}
        coords = {"row": np.arange(row0, rows + row0), "col": np.arange(col0, cols + col0)}
        coords["band_im"] = [None]
    else:
        _, rows, cols = im.shape
        data = {"im": (["band_im", "row", "col"], im)}
        coords = {
            "band_im": list(bands or BAND_NAMES[: im.shape[0]]),
            "row": np.arange(row0, rows + row0),
            "col": np.arange(col0, cols + col0),
        }
    attrs = {"crs": None, "transform": None, "valid_pixels": 0, "no_data_mask": 1, "no_data_img": -9999}
    if extra_attrs:
        attrs.update(extra_attrs)
    if im.ndim == 2:
        # the real reader gives monoband datasets no band_im coordinate at all
        coords.pop("band_im")
    ds = xr.Dataset(data, coords=coords, attrs=attrs)
    if disp is not None:
        dmin, dmax = disp
        ds.coords["band_disp"] = ["min", "max"]
        if np.ndim(dmin) == 0:
            arr = np.array([np.full((rows, cols), dmin), np.full((rows, cols), dmax)])
            src = [int(dmin), int(dmax)]
        else:
            arr = np.array([np.asarray(dmin), np.asarray(dmax)]).astype(np.float32)
            src = "grid"
        ds["disparity"] = xr.DataArray(arr, dims=["band_disp", "row", "col"])
        ds.attrs["disparity_source"] = src if disparity_source == "auto" else disparity_source
        if disparity_source == "absent":
            # datasets assembled by hand: disparity_source is not one of the five mandatory attributes
            del ds.attrs["disparity_source"]
    else:
        ds.attrs["disparity_source"] = None if disparity_source == "auto" else disparity_source
    if msk is not None:
        ds["msk"] = xr.DataArray(np.asarray(msk).astype(np.int16), dims=["row", "col"])
    return ds


def metadata_dataset(ds: xr.Dataset) -> xr.Dataset:
    """What get_metadata returns for the raster behind ds: coordinates and attributes only."""
    if "band_im" in ds.coords:
        bands = list(ds.coords["band_im"].data)
    else:
        bands = [None]
    meta = xr.Dataset(
        data_vars={},
        coords={"band_im": bands, "row": np.arange(ds.sizes["row"]), "col": np.arange(ds.sizes["col"])},
    )
    meta.attrs["disparity_source"] = ds.attrs.get("disparity_source")
    if "disparity" in ds:
        meta.coords["band_disp"] = ["min", "max"]
        meta["disparity"] = xr.DataArray(ds["disparity"].data.copy(), dims=["band_disp", "row", "col"])
    return meta


def deep_copy_ds(ds):
    if ds is None:
        return None
    out = ds.copy(deep=True)
    out.attrs = copy.deepcopy(ds.attrs)
    return out


# ----------------------------------------------------------------------------------------------
# radiometry / stereo pairs
# ----------------------------------------------------------------------------------------------
TEXTURES = ["random", "lowtex", "patches", "steps", "gradient", "extreme", "faint"]


def texture(rng, rows, cols, kind):
    if kind == "random":
        return rng.integers(0, 256, (rows, cols)).astype(np.float32)
    if kind == "lowtex":
        return rng.integers(0, 4, (rows, cols)).astype(np.float32) * 10
    if kind == "patches":
        im = rng.integers(0, 256, (rows, cols)).astype(np.float32)
        for _ in range(3):
            r0, c0 = rng.integers(0, rows), rng.integers(0, cols)
            im[r0 : r0 + rng.integers(2, 8), c0 : c0 + rng.integers(2, 10)] = float(rng.integers(0, 256))
        return im
    if kind == "steps":
        im = np.zeros((rows, cols), np.float32)
        edges = np.sort(rng.integers(0, cols, 4))
        lev = rng.integers(0, 256, 5)
        prev = 0
        for e, l in zip(list(edges) + [cols], lev):
            im[:, prev:e] = l
            prev = e
        im += rng.integers(0, 6, (rows, cols))
        return im.astype(np.float32)
    if kind == "gradient":
        im = np.add.outer(np.arange(rows) * int(rng.integers(1, 4)), np.arange(cols) * int(rng.integers(1, 5)))
        return (im % 256).astype(np.float32)
    if kind == "extreme":
        return rng.choice(np.array([0.0, 4095.0, 1.0, 2048.0], np.float32), (rows, cols))
    if kind == "faint":
        # a faint texture (0..2 counts) on a high radiometric level: tiny but non-zero relative variance; half of the image
        # carries an ordinary texture so that the scene still has a range
        im = 3000.0 + rng.integers(0, 3, (rows, cols)).astype(np.float32)
        im[:, : cols // 2] += rng.integers(0, 200, (rows, cols // 2)).astype(np.float32)
        return im.astype(np.float32)
    raise ValueError(kind)


def stereo_pair(rng, rows, cols, kind="random", max_shift=3, noise=2, bands=1):
    """Right image = left shifted by a piecewise constant disparity field + bounded integer noise."""

    def one():
        left = texture(rng, rows, cols, kind)
        right = np.empty_like(left)
        field = np.full((rows, cols), int(rng.integers(-max_shift, max_shift + 1)))
        if rows > 3 and cols > 3:
            r0, c0 = int(rng.integers(0, rows)), int(rng.integers(0, cols))
            field[r0 : r0 + rows // 2, c0 : c0 + cols // 2] = int(rng.integers(-max_shift, max_shift + 1))
        cc = np.arange(cols)
        for r in range(rows):
            # left(x) matches right(x + d)  => right(x') = left(x' - d)
            src = np.clip(cc - field[r], 0, cols - 1)
            right[r] = left[r, src]
        if noise and kind == "faint":
            right += rng.integers(0, 2, (rows, cols)).astype(np.float32) * (np.arange(cols)[None, :] < cols // 2)
        elif noise:
            right = right + rng.integers(-noise, noise + 1, right.shape)
            right = np.clip(right, 0, 4095)
        return left.astype(np.float32), right.astype(np.float32)

    if bands == 1:
        return one()
    ls, rs = zip(*[one() for _ in range(bands)])
    return np.stack(ls), np.stack(rs)


MASK_KINDS = ["none", "sparse", "dense", "stripes", "fullrow", "fullcol", "onlyone", "border", "exotic"]


def mask(rng, rows, cols, kind):
    """Mask in the dataset convention: 0 valid, 1 no-data, anything else invalid."""
    if kind == "none":
        return None
    m = np.zeros((rows, cols), np.int16)
    if kind == "sparse":
        n = max(1, rows * cols // 25)
        m[rng.integers(0, rows, n), rng.integers(0, cols, n)] = rng.choice([1, 2], n)
    elif kind == "dense":
        sel = rng.random((rows, cols)) < 0.45
        m[sel] = rng.choice([1, 2], int(sel.sum()))
    elif kind == "stripes":
        m[:, :: int(rng.integers(3, 6))] = int(rng.choice([1, 2]))
    elif kind == "fullrow":
        m[int(rng.integers(0, rows))] = int(rng.choice([1, 2]))
    elif kind == "fullcol":
        m[:, int(rng.integers(0, cols))] = int(rng.choice([1, 2]))
    elif kind == "onlyone":
        m[:] = int(rng.choice([1, 2]))
        m[rows // 2, cols // 2] = 0
    elif kind == "border":
        k = int(rng.integers(1, 4))
        m[k : k + 2, :] = 2
        m[:, k : k + 1] = 1
    elif kind == "exotic":
        n = max(2, rows * cols // 12)
        m[rng.integers(0, rows, n), rng.integers(0, cols, n)] = rng.choice([2, 255, -1, 32767, 1, 3], n)
    return m


def interval(rng, cols, kind):
    if kind == "neg":
        a = -int(rng.integers(1, 6))
        return a, a + int(rng.integers(0, -a + 1))
    if kind == "pos":
        a = int(rng.integers(0, 4))
        return a, a + int(rng.integers(0, 5))
    if kind == "straddle":
        return -int(rng.integers(1, 5)), int(rng.integers(1, 5))
    if kind == "point":
        a = int(rng.integers(-3, 4))
        return a, a
    if kind == "wide":
        return -int(rng.integers(cols // 2, cols + 4)), int(rng.integers(cols // 2, cols + 4))
    if kind == "outside":
        a = int(rng.integers(cols - 2, cols + 3)) * int(rng.choice([-1, 1]))
        return (a, a + int(rng.integers(0, 3))) if a > 0 else (a - int(rng.integers(0, 3)), a)
    raise ValueError(kind)


def grids(rng, rows, cols, lo, hi, kind="random"):
    """Per-pixel interval grids with lo <= min <= max <= hi."""
    if kind == "constant":
        return np.full((rows, cols), lo, np.float32), np.full((rows, cols), hi, np.float32)
    if kind in ("band", "pointvar"):
        # intervals of identical width whose position varies from pixel to pixel (centre +- r, or min == max)
        r = 0 if kind == "pointvar" or hi - lo < 2 else int(rng.integers(1, max(2, (hi - lo) // 2 + 1)))
        centre = rng.integers(lo + r, hi - r + 1, (rows, cols))
        if rng.random() < 0.5:
            centre[:] = np.sort(centre, axis=1)  # smooth-ish field
        gmin, gmax = centre - r, centre + r
        gmin.flat[0], gmax.flat[0] = lo, lo + 2 * r
        gmin.flat[-1], gmax.flat[-1] = hi - 2 * r, hi
        return gmin.astype(np.float32), gmax.astype(np.float32)
    if kind == "float":
        # bounds that are not multiples of 1/subpix (grid files are float32; the multiscale step produces such grids);
        # the hull keeps integer bounds so that the sampled range is unambiguous
        a = lo + rng.random((rows, cols)) * (hi - lo)
        b = lo + rng.random((rows, cols)) * (hi - lo)
        gmin, gmax = np.minimum(a, b), np.maximum(a, b)
        gmin.flat[0], gmax.flat[0] = lo, hi
        return gmin.astype(np.float32), gmax.astype(np.float32)
    a = rng.integers(lo, hi + 1, (rows, cols))
    b = rng.integers(lo, hi + 1, (rows, cols))
    gmin, gmax = np.minimum(a, b), np.maximum(a, b)
    if kind == "rowwise":
        gmin[:] = gmin[:, :1]
        gmax[:] = gmax[:, :1]
    if kind == "points":
        sel = rng.random((rows, cols)) < 0.3
        gmax[sel] = gmin[sel]
    # make sure the hull is reached
    gmin.flat[0], gmax.flat[0] = lo, hi
    return gmin.astype(np.float32), gmax.astype(np.float32)


# ----------------------------------------------------------------------------------------------
# digests
# ----------------------------------------------------------------------------------------------
def _h_update(h, a):
    a = np.asarray(a)
    h.update(str(a.dtype).encode())
    h.update(str(a.shape).encode())
    if a.dtype == object:
        h.update(repr(a.tolist()).encode())
    else:
        h.update(np.ascontiguousarray(a).tobytes())


def ds_digest(ds, with_attrs=True) -> str:
    """sha256 over values, dtypes, coords and attrs of every variable (NaN-structural: byte compare)."""
    h = hashlib.sha256()
    if ds is None:
        return "none"
    for name in sorted(map(str, ds.variables)):
        h.update(name.encode())
        v = ds[name]
        h.update(repr(tuple(v.dims)).encode())
        _h_update(h, v.data)
    if with_attrs:
        for k in sorted(ds.attrs):
            val = ds.attrs[k]
            h.update(str(k).encode())
            if isinstance(val, np.ndarray):
                _h_update(h, val)
            else:
                h.update(repr(val).encode())
    return h.hexdigest()[:20]


def same(a, b) -> bool:
    """NaN-structural, bit-level equality of two arrays."""
    a, b = np.asarray(a), np.asarray(b)
    if a.shape != b.shape:
        return False
    if a.dtype.kind == "f" or b.dtype.kind == "f":
        return bool(np.array_equal(a, b, equal_nan=True))
    return bool(np.array_equal(a, b))


def first_diffs(a, b, n=8):
    a, b = np.asarray(a), np.asarray(b)
    if a.shape != b.shape:
        return [{"shape_a": list(a.shape), "shape_b": list(b.shape)}]
    if a.dtype.kind == "f" or b.dtype.kind == "f":
        bad = ~((a == b) | (np.isnan(a.astype(float)) & np.isnan(b.astype(float))))
    else:
        bad = a != b
    idx = np.argwhere(bad)[:n]
    return [{"at": i.tolist(), "a": a[tuple(i)].item(), "b": b[tuple(i)].item()} for i in idx]


# ----------------------------------------------------------------------------------------------
# synthetic cost volumes / disparity maps
# ----------------------------------------------------------------------------------------------
def make_cv(costs, disps, type_measure="min", window_size=1, subpix=1, validity=None, conf=None, conf_names=None,
            row0=0, col0=0, measure="sad", cmax=None):
    """Cost-volume dataset as the matching-cost step leaves it (allocate_cost_volume + compute attrs)."""
    costs = np.asarray(costs, dtype=np.float32)
    rows, cols, nd = costs.shape
    cv = xr.Dataset(
        {"cost_volume": (["row", "col", "disp"], costs)},
        coords={"row": np.arange(row0, row0 + rows), "col": np.arange(col0, col0 + cols), "disp": np.asarray(disps)},
    )
    cv.attrs = {
        "no_data_img": -9999, "valid_pixels": 0, "no_data_mask": 1, "crs": None, "transform": None,
        "window_size": window_size, "subpixel": subpix, "band_correl": None, "offset_row_col": (window_size - 1) // 2,
        "measure": measure, "type_measure": type_measure, "cmax": cmax if cmax is not None else 1000,
        "sampling_interval": 1, "col_to_compute": np.arange(col0, col0 + cols), "disparity_source": [int(np.floor(disps[0])), int(np.ceil(disps[-1]))],
    }
    if validity is None:
        validity = np.zeros((rows, cols), np.uint16)
    cv["validity_mask"] = xr.DataArray(np.asarray(validity), dims=["row", "col"])
    if conf is not None:
        cv.coords["indicator"] = list(conf_names)
        cv["confidence_measure"] = xr.DataArray(np.asarray(conf, dtype=np.float32), dims=["row", "col", "indicator"])
    return cv


def synth_costs(rng, rows, cols, nd, levels=4, nan_kind="mixed", floaty=False):
    """Quantised costs (ties) with NaN prefixes / suffixes / holes / all-NaN pixels.
    Returns costs and per-pixel [lo, hi] index interval outside which costs are NaN."""
    if floaty:
        c = rng.random((rows, cols, nd)).astype(np.float32) * 100
    else:
        c = rng.integers(0, levels, (rows, cols, nd)).astype(np.float32)
    lo = np.zeros((rows, cols), int)
    hi = np.full((rows, cols), nd - 1, int)
    if nan_kind in ("mixed", "interval"):
        a = rng.integers(0, nd, (rows, cols))
        b = rng.integers(0, nd, (rows, cols))
        sel = rng.random((rows, cols)) < 0.5
        lo = np.where(sel, np.minimum(a, b), lo)
        hi = np.where(sel, np.maximum(a, b), hi)
        k = np.arange(nd)[None, None, :]
        c[(k < lo[..., None]) | (k > hi[..., None])] = np.nan
    if nan_kind in ("mixed", "holes"):
        c[rng.random(c.shape) < 0.12] = np.nan
    if nan_kind in ("mixed", "allnan"):
        sel = rng.random((rows, cols)) < 0.08
        c[sel] = np.nan
    return c, lo, hi
