"""Brute-force cross-based cost aggregation (C11), from aggregation.rst and the statement."""
from __future__ import annotations

import numpy as np


def median3(img):
    """3x3 nan-median of the masked image: 1-pixel rim untouched, invalid (NaN) pixels stay invalid."""
    H, W = img.shape
    out = img.copy()
    if H < 3 or W < 3:
        return out
    for y in range(1, H - 1):
        for x in range(1, W - 1):
            if not np.isnan(img[y, x]):
                out[y, x] = np.nanmedian(img[y - 1:y + 2, x - 1:x + 2])
    return out


def arms(img, dist, inten):
    """img: median-filtered, NaN for invalid. Returns int array (H, W, 4): left, right, up, down."""
    H, W = img.shape
    out = np.zeros((H, W, 4), int)
    steps = [(0, -1), (0, 1), (-1, 0), (1, 0)]
    for y in range(H):
        for x in range(W):
            a = img[y, x]
            if np.isnan(a):
                continue
            for k, (dy, dx) in enumerate(steps):
                n = 0
                for s in range(1, dist):
                    yy, xx = y + dy * s, x + dx * s
                    if not (0 <= yy < H and 0 <= xx < W):
                        break
                    b = img[yy, xx]
                    if np.isnan(b) or abs(float(a) - float(b)) >= inten:
                        break
                    n += 1
                if n == 0:
                    yy, xx = y + dy, x + dx
                    if 0 <= yy < H and 0 <= xx < W and (not np.isnan(img[yy, xx]) or dist == 1):
                        # one-pixel minimum; with cbca_distance = 1 the statement can be read either way for an
                        # invalid neighbour (DESIGN.md C11): the generator never produces that configuration
                        n = 1
                out[y, x, k] = n
    return out


def shifted(right, right_valid, k, subpix):
    """Right image interpolated at columns c + k/subpix (W-1 columns) and its validity (both neighbours valid)."""
    t = k / float(subpix)
    img = (1 - t) * right[:, :-1].astype(np.float64) + t * right[:, 1:].astype(np.float64)
    val = right_valid[:, :-1] & right_valid[:, 1:]
    return img.astype(np.float32), val


def reference(cv, disps, left, right, left_valid, right_valid, offset, subpix, dist, inten):
    """cv: (H, W, D) input costs (NaN = not computable). Returns aggregated volume (float64)."""
    H, W, D = cv.shape
    lm = left.astype(np.float32).copy()
    lm[~left_valid] = np.nan
    lmed = median3(lm)

    def crop(a):
        return a[offset:a.shape[0] - offset, offset:a.shape[1] - offset] if offset else a

    la = arms(crop(lmed), dist, inten)
    ra = {}
    for k in range(subpix):
        if k == 0:
            rimg, rval = right.astype(np.float32), right_valid
        else:
            rimg, rval = shifted(right, right_valid, k, subpix)
        rm = rimg.copy()
        rm[~rval] = np.nan
        ra[k] = arms(crop(median3(rm)), dist, inten)
    out = np.full(cv.shape, np.nan)
    c = crop(np.moveaxis(cv, 2, 0).transpose(1, 2, 0)) if False else (cv[offset:H - offset, offset:W - offset] if offset else cv)
    h, w = c.shape[:2]
    res = np.full(c.shape, np.nan)
    for di, d in enumerate(disps):
        k = int(round((d % 1) * subpix)) % subpix
        R = ra[k]
        for y in range(h):
            for x in range(w):
                if np.isnan(c[y, x, di]):
                    continue
                xr = x + d
                if xr < 0:
                    continue
                xr = int(xr)
                if xr >= R.shape[1]:
                    continue
                top = min(la[y, x, 2], R[y, xr, 2])
                bot = min(la[y, x, 3], R[y, xr, 3])
                tot, cnt = 0.0, 0
                for yy in range(y - top, y + bot + 1):
                    l = min(la[yy, x, 0], R[yy, xr, 0])
                    r = min(la[yy, x, 1], R[yy, xr, 1])
                    seg = c[yy, x - l:x + r + 1, di]
                    cnt += l + r + 1
                    tot += float(np.nansum(seg))
                res[y, x, di] = tot / cnt
    if offset:
        out[offset:H - offset, offset:W - offset] = res
    else:
        out = res
    return out, la
