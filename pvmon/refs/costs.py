"""Reference cost volume for C02/C09, written from the statement: per pixel, per disparity, float64,
plain shifted arrays (no striding, no integral images, no zoom)."""
from __future__ import annotations

import numpy as np


def sampled_disparities(dmin: int, dmax: int, subpix: int) -> np.ndarray:
    """Integer disparities, or multiples of 1/subpix, in [dmin, dmax]."""
    n = (dmax - dmin) * subpix
    return dmin + np.arange(n + 1) / float(subpix)


def right_at(right: np.ndarray, d: float) -> np.ndarray:
    """R_d[y, x] = right image at column x + d (linear interpolation), NaN where that leaves the image."""
    rows, cols = right.shape
    x = np.arange(cols) + d
    c0 = np.floor(x).astype(int)
    t = x - c0
    out = np.full((rows, cols), np.nan)
    if np.all(t == 0):
        ok = (c0 >= 0) & (c0 <= cols - 1)
        out[:, ok] = right[:, c0[ok]]
    else:
        ok = (c0 >= 0) & (c0 + 1 <= cols - 1)
        out[:, ok] = (1 - t[ok]) * right[:, c0[ok]] + t[ok] * right[:, c0[ok] + 1]
    return out


def window_stack(a: np.ndarray, w: int) -> np.ndarray:
    """stack[k, y, x] = a[y+dy, x+dx] for the k-th window offset (row-major), NaN outside."""
    r = w // 2
    rows, cols = a.shape
    pad = np.full((rows + 2 * r, cols + 2 * r), np.nan)
    pad[r : r + rows, r : r + cols] = a
    out = np.empty((w * w, rows, cols))
    k = 0
    for dy in range(-r, r + 1):
        for dx in range(-r, r + 1):
            out[k] = pad[r + dy : r + dy + rows, r + dx : r + dx + cols]
            k += 1
    return out


def measure_plane(method: str, left: np.ndarray, rd: np.ndarray, w: int) -> np.ndarray:
    """Cost of every pixel for one disparity; NaN where a window leaves its image."""
    lw = window_stack(left.astype(np.float64), w)
    rw = window_stack(rd, w)
    bad = np.isnan(lw).any(axis=0) | np.isnan(rw).any(axis=0)
    with np.errstate(invalid="ignore", divide="ignore"):
        if method == "sad":
            c = np.abs(lw - rw).sum(axis=0)
        elif method == "ssd":
            c = ((lw - rw) ** 2).sum(axis=0)
        elif method == "census":
            centre = (w * w) // 2
            lb = lw > lw[centre]
            rb = rw > rw[centre]
            c = (lb != rb).sum(axis=0).astype(np.float64)
        elif method == "zncc":
            ml, mr = lw.mean(axis=0), rw.mean(axis=0)
            cov = (lw * rw).mean(axis=0) - ml * mr
            vl = (lw * lw).mean(axis=0) - ml * ml
            vr = (rw * rw).mean(axis=0) - mr * mr
            den = np.sqrt(np.maximum(vl, 0)) * np.sqrt(np.maximum(vr, 0))
            c = np.where(den > 0, cov / np.where(den > 0, den, 1), 0.0)
        else:
            raise ValueError(method)
    c = np.where(bad, np.nan, c)
    return c


def zncc_tolerance(left, rd, w):
    """Per-pixel bound on |zncc_float32_pipeline - zncc_exact| for one disparity plane.

    The implementation squares and multiplies float32 samples before averaging in float64: each product carries a
    relative rounding error of 2^-24 unless it is exactly representable (integer samples <= 4095).  The variance and
    covariance are differences of such means, so the absolute error is amplified by 1/variance."""
    lw = window_stack(left.astype(np.float64), w)
    rw = window_stack(rd, w)
    eps = 2.0 ** -23

    def err(a, b):
        prod = a * b
        exact = (prod == np.round(prod)) & (np.abs(prod) < 2 ** 24)
        return np.where(exact, 0.0, np.abs(prod) * eps).mean(axis=0)

    with np.errstate(invalid="ignore", divide="ignore"):
        vl, vr = lw.var(axis=0), rw.var(axis=0)
        e_ll, e_rr, e_lr = err(lw, lw), err(rw, rw), err(lw, rw)
        den = np.sqrt(vl * vr)
        tol = 2e-5 + np.where(den > 0, e_lr / den, 0) + 0.5 * np.where(vl > 0, e_ll / vl, 0) + 0.5 * np.where(vr > 0, e_rr / vr, 0)
        # a variance of the order of its own rounding error can even be flushed to 0 by the implementation
        tol = np.where((vl > 0) & (vl <= 4 * e_ll) | (vr > 0) & (vr <= 4 * e_rr), np.inf, tol)
    return np.nan_to_num(tol, nan=np.inf)


def zncc_variances(left, rd, w):
    lw = window_stack(left.astype(np.float64), w)
    rw = window_stack(rd, w)
    return lw.var(axis=0), rw.var(axis=0)


def nodata_in_window(msk: np.ndarray, w: int, nodata_value=1) -> np.ndarray:
    st = window_stack((msk == nodata_value).astype(np.float64), w)
    return np.nansum(st, axis=0) > 0


def reference_cv(method, left, right, dmin_grid, dmax_grid, w, subpix, left_msk=None, right_msk=None,
                 valid=0, nodata=1):
    """Full reference cost volume (rows, cols, D) and the sampled disparities.

    left/right: 2D arrays of the selected band.  dmin_grid/dmax_grid: per-pixel interval (2D arrays)."""
    rows, cols = left.shape
    gmin, gmax = int(np.min(dmin_grid)), int(np.max(dmax_grid))
    disps = sampled_disparities(gmin, gmax, subpix)
    cv = np.full((rows, cols, len(disps)), np.nan)
    right64 = right.astype(np.float64)
    l_inv = l_nod = r_inv = r_nod = None
    if left_msk is not None:
        l_inv = (left_msk != valid) & (left_msk != nodata)
        l_nod = nodata_in_window(left_msk, w, nodata)
    if right_msk is not None:
        r_inv = ((right_msk != valid) & (right_msk != nodata)).astype(np.float64)
        r_nod = nodata_in_window(right_msk, w, nodata).astype(np.float64)
    for i, d in enumerate(disps):
        rd = right_at(right64, d)
        c = measure_plane(method, left, rd, w)
        if l_inv is not None:
            c[l_inv | l_nod] = np.nan
        if r_inv is not None:
            # right centre masked invalid / right window containing a no-data pixel; for a fractional
            # disparity both integer neighbours count
            lo, hi = np.floor(d), np.ceil(d)
            for dd in {lo, hi}:
                inv_d = right_at(r_inv, dd)
                nod_d = right_at(r_nod, dd)
                with np.errstate(invalid="ignore"):
                    c[(inv_d > 0) | (nod_d > 0)] = np.nan
        out = (d < dmin_grid) | (d > dmax_grid)
        c[out] = np.nan
        cv[:, :, i] = c
    return cv, disps
