"""Reference for the validity flags produced before validation (C04), from output.rst and the
statement.  Loop-level, one pixel at a time."""
from __future__ import annotations

import numpy as np

B0, B1, B2, B3, B4, B5, B6, B7, B8, B9, B11 = 1, 2, 4, 8, 16, 32, 64, 128, 256, 512, 2048
INVALID_BITS = B0 | B1 | B6 | B7  # the 'invalid' flags that exist before validation


def expected_causes(rows, cols, window, gmin, gmax, left_msk=None, right_msk=None, valid=0, nodata=1):
    """Returns dict of boolean maps for bits 0, 2, 6, 7 (documented causes over the *global* integer interval)
    and the border map.  bit 1 is judged against the cost volume itself (all costs NaN)."""
    off = (window - 1) // 2
    border = np.zeros((rows, cols), bool)
    if off:
        border[:off] = border[-off:] = True
        border[:, :off] = border[:, -off:] = True
    b0 = np.zeros((rows, cols), bool)
    b2 = np.zeros((rows, cols), bool)
    b6 = np.zeros((rows, cols), bool)
    b7 = np.zeros((rows, cols), bool)
    all_out = np.zeros((rows, cols), bool)
    for y in range(rows):
        for x in range(cols):
            if left_msk is not None:
                y0, y1 = max(0, y - off), min(rows, y + off + 1)
                x0, x1 = max(0, x - off), min(cols, x + off + 1)
                b0[y, x] = bool((left_msk[y0:y1, x0:x1] == nodata).any())
                b6[y, x] = left_msk[y, x] != valid and left_msk[y, x] != nodata
            cand = [x + d for d in range(int(gmin), int(gmax) + 1)]
            inside = [c for c in cand if off <= c <= cols - 1 - off]
            b2[y, x] = 0 < len(inside) < len(cand)
            all_out[y, x] = len(inside) == 0
            if right_msk is not None and inside:
                b7[y, x] = all(right_msk[y, c] != valid and right_msk[y, c] != nodata for c in inside)
    return {"b0": b0, "b2": b2, "b6": b6, "b7": b7, "border": border, "all_out": all_out}
