"""Reference confidence measures (C12) from cost_volume_confidence.rst and the statement.

'best' is the minimum for min-type measures and the maximum for max-type ones: a max-type volume is
negated first, after which everything is written for 'best = minimum'."""
from __future__ import annotations

import numpy as np


def etas(eta_max, eta_step):
    return np.arange(0.0, eta_max, eta_step)


def eta_sets(eta_max, eta_step):
    """'eta in [0, eta_max) by eta_step': when eta_max / eta_step is an integer up to rounding (0.3 / 0.01), whether the
    last sample k * eta_step is < eta_max depends on the floating-point type; both readings are returned."""
    q = eta_max / eta_step
    n_lo = int(np.ceil(q - 1e-4))
    n_hi = int(np.ceil(q + 1e-4))
    out = [np.arange(n_lo) * eta_step]
    if n_hi != n_lo:
        out.append(np.arange(n_hi) * eta_step)
    return out


def normalise(cv, type_measure):
    c = cv.astype(np.float64)
    if type_measure == "max":
        c = -c
    lo, hi = np.nanmin(c), np.nanmax(c)
    return (c - lo) / (hi - lo)


def ambiguity_counts(cv, type_measure, eta_max, eta_step, eps):
    """Per pixel: (count_low, count_high, n_nan, all_nan) of the un-normalised ambiguity integral.

    count_low uses the threshold moved by -eps and finite costs only; count_high the threshold moved by
    +eps plus every NaN sample (don't-care: the statement does not say whether a NaN cost is 'within eta')."""
    n = normalise(cv, type_measure)
    sets = eta_sets(eta_max, eta_step)
    best = np.nanmin(np.where(np.isnan(n), np.inf, n), axis=2)
    fin = ~np.isnan(n)
    n_nan = (~fin).sum(axis=2)
    lows, highs = [], []
    for es in sets:
        low = np.zeros(n.shape[:2])
        high = np.zeros(n.shape[:2])
        for e in es:
            thr = best[..., None] + e
            low += (fin & (n <= thr - eps)).sum(axis=2)
            high += (fin & (n <= thr + eps)).sum(axis=2)
        lows.append(low)
        highs.append(high + n_nan * len(es))
    return np.minimum.reduce(lows), np.maximum.reduce(highs), n_nan, ~fin.any(axis=2), len(sets[-1])


def risk(cv, type_measure, eta_max, eta_step, eps):
    """Per pixel risk_max / risk_min brackets on NaN-free curves (index units); NaN elsewhere.

    For every eta the disparities are split into 'certainly within', 'certainly outside' and 'borderline' (within
    eps of the threshold); every subset of the borderline ones is tried (the implementation's float32 comparisons
    may fall either way, independently), which gives a [min, max] per eta; the means of those bound the result."""
    import itertools

    n = normalise(cv, type_measure)
    H, W, D = n.shape
    out = {k: np.full((H, W), np.nan) for k in ("max_lo", "max_hi", "min_lo", "min_hi")}
    idx = np.arange(D)
    sets = eta_sets(eta_max, eta_step)
    for y in range(H):
        for x in range(W):
            c = n[y, x]
            if np.isnan(c).any():
                continue
            b = c.min()
            cand = {"max_lo": [], "max_hi": [], "min_lo": [], "min_hi": []}
            skip = False
            for es in sets:
                sp_lo, sp_hi, mn_lo, mn_hi = [], [], [], []
                for e in es:
                    sure = c <= b + e - eps
                    sure |= c == b
                    border = np.where((c <= b + e + eps) & ~sure)[0]
                    if len(border) > 6:
                        skip = True
                        break
                    sp, mn = [], []
                    for r in range(len(border) + 1):
                        for comb in itertools.combinations(border, r):
                            sel = sure.copy()
                            sel[list(comb)] = True
                            spread = idx[sel].max() - idx[sel].min()
                            sp.append(spread)
                            mn.append(1 + spread - sel.sum())
                    sp_lo.append(min(sp)); sp_hi.append(max(sp)); mn_lo.append(min(mn)); mn_hi.append(max(mn))
                if skip:
                    break
                cand["max_lo"].append(np.mean(sp_lo)); cand["max_hi"].append(np.mean(sp_hi))
                cand["min_lo"].append(np.mean(mn_lo)); cand["min_hi"].append(np.mean(mn_hi))
            if skip:
                continue
            out["max_lo"][y, x], out["max_hi"][y, x] = min(cand["max_lo"]), max(cand["max_hi"])
            out["min_lo"][y, x], out["min_hi"][y, x] = min(cand["min_lo"]), max(cand["min_hi"])
    return out


def interval_bounds(cv, disps, type_measure, threshold, eps):
    """Returns inf/sup index brackets: (inf_lo, inf_hi, sup_lo, sup_hi) as disparity values, NaN for all-NaN."""
    n = normalise(cv, type_measure)
    H, W, D = n.shape
    res = [np.full((H, W), np.nan) for _ in range(4)]
    for y in range(H):
        for x in range(W):
            c = n[y, x]
            if np.isnan(c).all():
                continue
            b = np.nanmin(c)
            poss = 1 - (c - b)
            cand = []
            for sgn in (-1, 1):
                ok = np.where(~np.isnan(poss) & (poss >= threshold + sgn * eps))[0]
                if len(ok) == 0:
                    ok = np.where(poss == np.nanmax(poss))[0]
                lo, hi = ok.min(), ok.max()
                for one in (1.0 - eps, 1.0 + 0 * eps):
                    l2 = max(0, lo - 1) if poss[lo] >= one else lo
                    h2 = min(D - 1, hi + 1) if poss[hi] >= one else hi
                    cand.append((l2, h2))
            res[0][y, x] = disps[min(c_[0] for c_ in cand)]
            res[1][y, x] = disps[max(c_[0] for c_ in cand)]
            res[2][y, x] = disps[min(c_[1] for c_ in cand)]
            res[3][y, x] = disps[max(c_[1] for c_ in cand)]
    return res


def std_window(img, w):
    """Standard deviation of the w x w window around each pixel (NaN where the window leaves the image)."""
    H, W = img.shape
    r = w // 2
    out = np.full((H, W), np.nan)
    a = img.astype(np.float64)
    for y in range(r, H - r):
        for x in range(r, W - r):
            out[y, x] = a[y - r:y + r + 1, x - r:x + r + 1].std()
    return out
