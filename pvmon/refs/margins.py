"""Margin table of C20, transcribed from the statement (not from the code)."""
from __future__ import annotations


def _uniform(v):
    return {"left": v, "up": v, "right": v, "down": v}


def expected(pipeline: dict, image_shape, step: int = 1) -> dict:
    """pipeline: completed pipeline dict (ordered); returns the expected to_dict()."""
    cum, non = {}, {}
    for key, p in pipeline.items():
        kind = key.split(".")[0]
        if kind == "matching_cost":
            cum[key] = _uniform((int(p["window_size"]) - 1) // 2)
        elif kind == "optimization":
            cum[key] = _uniform(40)
        elif kind in ("aggregation", "disparity", "refinement"):
            cum[key] = _uniform(0)
        elif kind == "filter":
            m = p["filter_method"]
            if m in ("median", "median_for_intervals"):
                non[key] = _uniform(int(p["filter_size"]) * step)
            elif m == "bilateral":
                v = min(int(image_shape[0]), int(image_shape[1]), int(3 * float(p["sigma_space"]) + 1)) * step
                non[key] = _uniform(v)
    glob = {}
    for side in ("left", "up", "right", "down"):
        s = sum(v[side] for v in cum.values())
        glob[side] = max([s] + [v[side] for v in non.values()])
    return {"cumulative margins": cum, "non-cumulative margins": non, "global margins": glob}
