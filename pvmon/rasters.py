"""Raster files written by the harness (GTiff through rasterio) for C05/C16/C17/C19/C20."""
from __future__ import annotations

import os
import warnings

import numpy as np
import rasterio
from rasterio.transform import from_origin


def write_tif(path, arr, dtype="float32", descriptions=None, georef=False, nodata=None, origin=(500000.0, 4800000.0), crs="EPSG:32631"):
    """arr: (rows, cols) or (bands, rows, cols)."""
    arr = np.asarray(arr)
    if arr.ndim == 2:
        arr = arr[None]
    kw = {}
    if georef:
        kw["crs"] = crs
        kw["transform"] = from_origin(origin[0], origin[1], 0.5, 0.5)
    if nodata is not None:
        kw["nodata"] = nodata
    os.makedirs(os.path.dirname(path), exist_ok=True)
    with warnings.catch_warnings():
        warnings.simplefilter("ignore")
        with rasterio.open(
            path, "w", driver="GTiff", width=arr.shape[2], height=arr.shape[1], count=arr.shape[0], dtype=dtype, **kw
        ) as dst:
            dst.write(arr.astype(dtype))
            if descriptions:
                for i, d in enumerate(descriptions):
                    dst.set_band_description(i + 1, d)
    return path


def read_all(path):
    with warnings.catch_warnings():
        warnings.simplefilter("ignore")
        with rasterio.open(path) as src:
            return src.read(), list(src.descriptions), src.profile
