"""Imported by every worker before the code under test.

* puts the tree under test (PANDORA_VERIF_REPO) first on sys.path;
* forces cache=True on every numba.njit of the tree.  Pandora compiles ~12 kernels with explicit
  signatures at import time (25-50 s per interpreter); on-disk caching changes nothing in what is
  compiled, and the cache directory is keyed by a digest of the whole tree, the bounds-check mode
  and the parallel switch (core.worker_env), so a stale kernel can never be picked up after an
  edit.  PVMON_NO_FORCE_CACHE=1 switches this off (used by the C18 no-interference shard)."""
import os
import sys
import warnings

REPO = os.environ.get("PANDORA_VERIF_REPO", "/repo")
if not sys.path or sys.path[0] != REPO:
    sys.path.insert(0, REPO)
warnings.filterwarnings("ignore")

if not os.environ.get("PVMON_NO_FORCE_CACHE"):
    import numba

    _orig_njit = numba.njit

    def _takes_function(fn) -> bool:
        """Kernels that receive another jitted function as an argument (the refinement loops: `method`) are not
        cacheable across processes: numba keys the cache index by a weakly referenced Dispatcher type, and a process
        that loaded an index written by another process cannot save it again ('underlying object has vanished')."""
        code = getattr(fn, "__code__", None)
        return bool(code) and "method" in code.co_varnames[: code.co_argcount]

    def _njit_cached(*args, **kwargs):
        if len(args) == 1 and callable(args[0]) and not isinstance(args[0], str) and not kwargs:
            if _takes_function(args[0]):
                return _orig_njit(args[0])
            return _orig_njit(cache=True)(args[0])
        if "cache" in kwargs:
            return _orig_njit(*args, **kwargs)
        inner = _orig_njit(*args, **kwargs)
        cached = _orig_njit(*args, cache=True, **kwargs)

        def choose(fn):
            return inner(fn) if _takes_function(fn) else cached(fn)

        return choose

    numba.njit = _njit_cached
