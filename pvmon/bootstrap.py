"""Imported by every worker before the code under test.

* puts the tree under test (PANDORA_VERIF_REPO) first on sys.path;
* forces cache=True on every numba.njit of the tree.  Pandora compiles ~12 kernels with explicit
  signatures at import time (25-50 s per interpreter); on-disk caching changes nothing in what is
  compiled, and the cache directory is keyed by a digest of the whole tree, the bounds-check mode
  and the parallel switch (core.worker_env), so a stale kernel can never be picked up after an
  edit.  PVMON_NO_FORCE_CACHE=1 switches this off (used by the C18 no-interference shard)."""
import os
import sys
import warnings

REPO = os.environ.get("PANDORA_VERIF_REPO", "/repo")
if not sys.path or sys.path[0] != REPO:
    sys.path.insert(0, REPO)
warnings.filterwarnings("ignore")

if not os.environ.get("PVMON_NO_FORCE_CACHE"):
    import numba

    _orig_njit = numba.njit

    def _njit_cached(*args, **kwargs):
        if len(args) == 1 and callable(args[0]) and not isinstance(args[0], str) and not kwargs:
            return _orig_njit(cache=True)(args[0])
        kwargs.setdefault("cache", True)
        return _orig_njit(*args, **kwargs)

    numba.njit = _njit_cached
