"""Step tracer (DESIGN.md 2.2): wraps, on one machine *instance*, every callback named in the two
transition tables, and records an ordered event log.  Names come from the tables, not from a
hard-coded list, so renamed callbacks are still seen.  Arguments and results are never changed."""
from __future__ import annotations

import copy

import numpy as np


def _names(table):
    out = []
    for t in table:
        for phase in ("prepare", "before", "after", "conditions", "unless"):
            v = t.get(phase)
            if v is None:
                continue
            for n in v if isinstance(v, (list, tuple)) else [v]:
                if isinstance(n, str):
                    out.append((n, phase, t["trigger"], t["source"], t["dest"]))
    return out


def snapshot(machine, what=("left_cv", "right_cv", "left_disparity", "right_disparity")):
    """Deep copies of the machine's product datasets (None / empty datasets preserved)."""
    snap = {}
    for name in what:
        ds = getattr(machine, name, None)
        if ds is None:
            snap[name] = None
        else:
            c = ds.copy(deep=True)
            c.attrs = copy.deepcopy(ds.attrs)
            snap[name] = c
    return snap


class Tracer:
    """tracer = Tracer(machine, on_before=f, on_after=g); events in tracer.events.

    on_before(event, machine) / on_after(event, machine) are called around every *run* callback
    (prepare/after/conditions of the run table); monitors use them to snapshot and judge."""

    def __init__(self, machine, on_before=None, on_after=None, snapshots=False):
        self.m = machine
        self.events: list = []
        self.on_before = on_before
        self.on_after = on_after
        self.snapshots = snapshots
        self._installed = []
        cls = type(machine)
        self.run_table = copy.deepcopy(cls._transitions_run)  # pylint: disable=protected-access
        self.check_table = copy.deepcopy(cls._transitions_check)  # pylint: disable=protected-access
        seen = set()
        for table, tag in ((self.run_table, "run"), (self.check_table, "check")):
            for name, phase, trigger, source, dest in _names(table):
                if name in seen:
                    continue
                seen.add(name)
                self._wrap(name, phase, trigger, tag)

    def _wrap(self, name, phase, trigger, tag):
        orig = getattr(self.m, name)
        tracer = self

        def wrapper(*args, **kwargs):
            step_key = None
            for a in args:
                if isinstance(a, str):
                    step_key = a
            m = tracer.m
            ev = {
                "seq": len(tracer.events),
                "table": tag,
                "callback": name,
                "phase": phase,
                "trigger": trigger,
                "step_key": step_key,
                "kind": step_key.split(".")[0] if step_key else None,
                "state_before": m.state,
                "scale": getattr(m, "current_scale", None),
                "img_shape": (
                    (int(m.left_img.sizes["row"]), int(m.left_img.sizes["col"]))
                    if getattr(m, "left_img", None) is not None and "row" in m.left_img.sizes
                    else None
                ),
                "exception": None,
            }
            tracer.events.append(ev)
            if tag == "run":
                if tracer.snapshots:
                    ev["snap_before"] = snapshot(m)
                if tracer.on_before:
                    tracer.on_before(ev, m)
            try:
                res = orig(*args, **kwargs)
            except BaseException as exc:
                ev["exception"] = repr(exc)
                ev["state_after"] = m.state
                raise
            ev["state_after"] = m.state
            ev["result"] = res if isinstance(res, bool) else None
            if tag == "run":
                if tracer.snapshots:
                    ev["snap_after"] = snapshot(m)
                if tracer.on_after:
                    tracer.on_after(ev, m)
            return res

        wrapper.__name__ = name
        setattr(self.m, name, wrapper)
        self._installed.append(name)

    def uninstall(self):
        for n in self._installed:
            try:
                delattr(self.m, n)
            except AttributeError:
                pass
        self._installed = []

    # ---- derived views ------------------------------------------------------------------
    def run_steps(self):
        """[(step_key, phase, scale, img_shape)] for executed run callbacks, in order."""
        return [
            (e["step_key"], e["phase"], e["scale"], e["img_shape"], e.get("result"))
            for e in self.events
            if e["table"] == "run"
        ]

    def check_steps(self):
        return [e["step_key"] for e in self.events if e["table"] == "check"]


class ClassSpy:
    """Records calls of the step classes' entry points with the role of the image arguments
    (left pass: first image argument is machine.left_img).  Installed on the classes for the
    duration of one run; restores the originals on exit."""

    ENTRY = {
        "compute_cost_volume": (0, 1),
        "cost_volume_aggregation": (0, 1),
        "optimize_cv": (1, 2),
        "compute_semantic_segmentation": (1, 2),
        "confidence_prediction": (1, 2),
        "to_disp": (1, 2),
        "filter_disparity": None,
        "subpixel_refinement": None,
        "disparity_checking": None,
        "interpolated_disparity": None,
        "disparity_range": None,
    }

    def __init__(self, machine):
        self.m = machine
        self.calls: list = []
        self._undo = []

    def __enter__(self):
        import pandora
        from pandora import (aggregation, cost_volume_confidence, disparity, filter, matching_cost, multiscale,
                             optimization, refinement, semantic_segmentation, validation)

        bases = [
            matching_cost.AbstractMatchingCost,
            aggregation.AbstractAggregation,
            optimization.AbstractOptimization,
            semantic_segmentation.AbstractSemanticSegmentation,
            cost_volume_confidence.AbstractCostVolumeConfidence,
            disparity.AbstractDisparity,
            filter.AbstractFilter,
            refinement.AbstractRefinement,
            validation.AbstractValidation,
            validation.AbstractInterpolation,
            multiscale.AbstractMultiscale,
        ]
        classes = set()
        for b in bases:
            for attr in dir(b):
                if attr.endswith("_methods_avail") or attr.endswith("methods_avail"):
                    reg = getattr(b, attr)
                    if isinstance(reg, dict):
                        classes.update(reg.values())
        spy = self
        for cls in classes:
            for meth, roles in self.ENTRY.items():
                if meth not in cls.__dict__:
                    # inherited: wrap where defined
                    owner = next((c for c in cls.__mro__ if meth in c.__dict__), None)
                    if owner is None or owner in (object,):
                        continue
                else:
                    owner = cls
                if getattr(owner.__dict__[meth], "_pvmon_spy", False):
                    continue
                orig = owner.__dict__[meth]
                if isinstance(orig, (staticmethod, classmethod)):
                    continue

                def make(orig=orig, meth=meth, roles=roles, owner=owner):
                    def wrapped(self_, *a, **k):
                        side = None
                        if roles is not None and len(a) > roles[0]:
                            first = a[roles[0]]
                            side = "left" if first is spy.m.left_img else ("right" if first is spy.m.right_img else "?")
                        elif len(a) >= 1:
                            first = a[-1] if meth == "subpixel_refinement" else a[0]
                            if first is spy.m.left_disparity:
                                side = "left"
                            elif first is spy.m.right_disparity:
                                side = "right"
                            else:
                                side = "?"
                        spy.calls.append({"cls": type(self_).__name__, "method": meth, "side": side})
                        return orig(self_, *a, **k)

                    wrapped._pvmon_spy = True  # pylint: disable=protected-access
                    return wrapped

                setattr(owner, meth, make())
                self._undo.append((owner, meth, orig))
        return self

    def __exit__(self, *exc):
        for owner, meth, orig in self._undo:
            setattr(owner, meth, orig)
        self._undo = []
        return False
