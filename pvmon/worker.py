"""Shard worker: runs in its own interpreter, imports the tree under PANDORA_VERIF_REPO,
executes the cases of one shard under the monitors and writes one JSON result."""
from __future__ import annotations

import faulthandler
import hashlib
import importlib
import json
import os
import sys
import time
import traceback
import warnings

faulthandler.enable()
from pvmon import bootstrap  # noqa: E402,F401  (must come before anything imports pandora)

REPO = bootstrap.REPO
warnings.filterwarnings("ignore")

import numpy as np  # noqa: E402


def _jsonable(o):
    if isinstance(o, np.generic):
        return o.item()
    if isinstance(o, np.ndarray):
        return o.tolist()
    if isinstance(o, (set, frozenset, tuple)):
        return list(o)
    return repr(o)


class Ctx:
    """What a shard accumulates. All counts are measured here, never constants."""

    def __init__(self, prop: str, spec: dict):
        self.prop = prop
        self.spec = spec
        self.seed = int(spec.get("seed", 0))
        self.tier = spec.get("tier", "quick")
        self.mode = spec.get("mode", "A")
        self.evaluations = 0
        self.digests: set = set()
        self.counters: dict = {}
        self.gates: dict = {}
        self.samples: list = []
        self.violations: list = []
        self.inconclusive: list = []
        self.out_of_domain = 0
        self.info: dict = {}
        self.workdir = os.environ.get("PVMON_WORKDIR", "/verif/.work/adhoc")
        self.t0 = time.time()
        self.current_case = None

    # ---- randomness -------------------------------------------------------------------
    def rng(self, *key) -> np.random.Generator:
        blob = json.dumps([self.seed, self.prop, *key], default=str).encode()
        s = int.from_bytes(hashlib.sha256(blob).digest()[:8], "little")
        return np.random.Generator(np.random.PCG64(s))

    # ---- accounting -------------------------------------------------------------------
    def count(self, name: str, n: int = 1) -> None:
        self.counters[name] = self.counters.get(name, 0) + int(n)

    def gate(self, name: str, n: int = 1) -> None:
        if n:
            self.gates[name] = self.gates.get(name, 0) + int(n)

    def case(self, digest_of, nontrivial: bool = True, unique_by_construction: bool = False) -> None:
        """One executed case. digest_of: anything JSON-able that identifies the case class.
        unique_by_construction: the generator enumerates without repetition (counted, not hashed)."""
        self.evaluations += 1
        if nontrivial and unique_by_construction:
            self.counters["distinct_by_enumeration"] = self.counters.get("distinct_by_enumeration", 0) + 1
        elif nontrivial:
            blob = json.dumps(digest_of, default=_jsonable, sort_keys=True).encode()
            self.digests.add(hashlib.sha256(blob).hexdigest()[:12])

    def ood(self, n: int = 1) -> None:
        self.out_of_domain += n

    def sample(self, obj, limit: int = 3) -> None:
        if len(self.samples) < limit:
            self.samples.append(json.loads(json.dumps(obj, default=_jsonable)))

    def note(self, key: str, value, cap: int = 2000) -> None:
        cur = self.info.setdefault(key, [])
        if value not in cur and len(cur) < cap:
            cur.append(value)

    def violation(self, clause: str, what: str, case=None, situation=None, **extra) -> None:
        if len(self.violations) >= 200:
            self.count("violations_dropped")
            return
        rec = {
            "clause": clause,
            "situation": situation,
            "what": what,
            "case": case if case is not None else self.current_case,
        }
        rec.update(extra)
        self.violations.append(json.loads(json.dumps(rec, default=_jsonable)))

    def elapsed(self) -> float:
        return time.time() - self.t0

    def result(self) -> dict:
        return {
            "evaluations": self.evaluations,
            "digests": sorted(self.digests),
            "counters": self.counters,
            "gates": self.gates,
            "samples": self.samples,
            "violations": self.violations,
            "inconclusive": self.inconclusive,
            "out_of_domain": self.out_of_domain,
            "info": self.info,
        }


def _in_repo(tb) -> bool:
    root = os.path.join(os.path.realpath(REPO), "pandora") + os.sep
    for fs in traceback.extract_tb(tb):
        if os.path.realpath(fs.filename).startswith(root):
            return True
    return False


def main() -> int:
    prop, spec_json, out = sys.argv[1], sys.argv[2], sys.argv[3]
    spec = json.loads(spec_json)
    ctx = Ctx(prop, spec)
    os.makedirs(ctx.workdir, exist_ok=True)
    from pvmon import sanit

    if ctx.mode == "B":
        sanit.install(ctx)
    mod = importlib.import_module(f"pvmon.props.{prop.lower()}")
    if hasattr(mod, "setup"):
        mod.setup(spec, ctx)

    def one(case):
        ctx.current_case = case
        try:
            mod.run_case(case, ctx)
        except Exception as exc:  # pylint: disable=broad-except
            tb = traceback.format_exc()
            if "numba/core/caching.py" in tb or "numba/core/serialize.py" in tb:
                # failure of numba's on-disk cache machinery (harness-side instrumentation), never a verdict on the code
                ctx.inconclusive.append(f"numba cache failure in case {json.dumps(case, default=str)[:200]}: {tb[-400:]}")
            elif _in_repo(exc.__traceback__):
                ctx.violation(
                    "exception-in-repo-code",
                    f"{type(exc).__name__}: {exc}",
                    case,
                    situation=type(exc).__name__,
                    traceback=tb[-2500:],
                )
            else:
                ctx.inconclusive.append(f"harness error in case {json.dumps(case, default=str)[:300]}: {tb[-1200:]}")

    if spec.get("replay_case") is not None:
        one(spec["replay_case"])
    else:
        budget = spec.get("budget_s")
        for case in mod.cases(spec, ctx):
            one(case)
            if budget and ctx.elapsed() > budget:
                ctx.count("budget_stops")
                break
    if hasattr(mod, "teardown"):
        mod.teardown(spec, ctx)
    if ctx.mode == "B":
        sanit.report(ctx)
    with open(out, "w") as f:
        json.dump(ctx.result(), f, default=_jsonable)
    return 0


if __name__ == "__main__":
    sys.exit(main())
