"""Orchestrator of the runtime-monitoring checks (DESIGN.md section 2).

One invocation = one property, one tier.  The workload is split into shards, each shard is a
separate interpreter (subprocess.run with a watchdog) running ``pvmon.worker``; the shard prints
one JSON result.  This module merges results, applies the gating rules, classifies violations
against known_findings.json, writes the evidence file (validated against the schema) and the
replay files, and chooses the exit code:

    0  held on everything explored (KNOWN-FINDING lines possible)
    1  VIOLATION property=<id> replay=<path>
    2  INCONCLUSIVE property=<id> reason=...
"""
from __future__ import annotations

import argparse
import concurrent.futures as cf
import hashlib
import importlib
import json
import os
import shutil
import subprocess
import sys
import time
from pathlib import Path

VERIF = Path(__file__).resolve().parent.parent
PY = os.environ.get("PANDORA_VERIF_PYTHON", "/venv/bin/python")
SCHEMA = Path("/root/.vp/EVIDENCE.schema.json")
SCHEMA_FALLBACK = VERIF / "pvmon" / "EVIDENCE.schema.json"


THOROUGH_SCALE = {"C02": 6, "C03": 6, "C04": 5, "C05": 8, "C06": 8, "C07": 5, "C08": 6, "C09": 6, "C10": 5, "C11": 5, "C12": 6,
                  "C13": 3, "C14": 5, "C15": 4, "C16": 5, "C17": 5, "C20": 10}


def repo_path() -> str:
    return os.environ.get("PANDORA_VERIF_REPO", "/repo")


def tree_digest(repo: str) -> str:
    """Digest of (path, size, mtime_ns) of every pandora/**/*.py: keys the numba cache."""
    h = hashlib.sha256()
    root = Path(repo) / "pandora"
    for p in sorted(root.rglob("*.py")):
        st = p.stat()
        h.update(f"{p.relative_to(root)}:{st.st_size}:{st.st_mtime_ns};".encode())
    return h.hexdigest()[:16]


def worker_env(mode: str, threads: int | None, parallel: bool, extra: dict | None) -> dict:
    env = dict(os.environ)
    repo = repo_path()
    digest = tree_digest(repo)
    bounds = mode == "B"
    cache_root = VERIF / ".cache" / "numba"
    cache_dir = cache_root / f"{'b' if bounds else 'a'}{'p' if parallel else 's'}-{digest}"
    cache_dir.mkdir(parents=True, exist_ok=True)
    env.update(
        {
            "PANDORA_VERIF": "1",
            "PANDORA_VERIF_REPO": repo,
            "PYTHONHASHSEED": "0",
            "PYTHONPATH": os.pathsep.join([repo, str(VERIF), str(VERIF / ".deps")]),
            "NUMBA_CACHE_DIR": str(cache_dir),
            "NUMBA_NUM_THREADS": str(threads or 2),
            "OMP_NUM_THREADS": str(threads or 2),
            "PANDORA_NUMBA_PARALLEL": "True" if parallel else "False",
            "PVMON_MODE": mode,
            "PYTHONDONTWRITEBYTECODE": "1",
            "PYTHONFAULTHANDLER": "1",
            "MPLBACKEND": "Agg",
        }
    )
    env.pop("NUMBA_BOUNDSCHECK", None)
    if bounds:
        env["NUMBA_BOUNDSCHECK"] = "1"
    if extra:
        env.update({k: str(v) for k, v in extra.items()})
    return env


def prune_caches(keep_digest: str) -> None:
    root = VERIF / ".cache" / "numba"
    if not root.is_dir():
        return
    # another check may be running against another tree (a scratch copy) at this very moment: only directories that nobody
    # has touched for six hours are removed (they are a few hundred kB each)
    now = time.time()
    for d in root.iterdir():
        try:
            if d.is_dir() and not d.name.endswith(keep_digest) and now - d.stat().st_mtime > 6 * 3600:
                shutil.rmtree(d, ignore_errors=True)
            elif d.is_dir() and d.name.endswith(keep_digest):
                os.utime(d, None)
        except OSError:
            pass


def warm_up(specs: list) -> None:
    """Compile the import-time kernels once per (mode, parallel) cache directory before the shards start
    (otherwise every shard pays the same 25-50 s of JIT concurrently)."""
    todo = {}
    for s in specs:
        env = worker_env(s.get("mode", "A"), s.get("threads"), s.get("parallel", True), s.get("env"))
        if env.get("PVMON_NO_FORCE_CACHE"):
            continue
        marker = Path(env["NUMBA_CACHE_DIR"]) / ".warm"
        if not marker.exists():
            todo[str(marker)] = env
    procs = []
    for marker, env in todo.items():
        procs.append(
            (
                marker,
                subprocess.Popen(
                    [PY, "-c", "from pvmon import bootstrap; import pandora.check_configuration"],
                    env=env,
                    cwd=str(VERIF),
                    stdout=subprocess.DEVNULL,
                    stderr=subprocess.DEVNULL,
                ),
            )
        )
    for marker, p in procs:
        try:
            if p.wait(timeout=900) == 0:
                Path(marker).parent.mkdir(parents=True, exist_ok=True)
                Path(marker).write_text("ok")
        except subprocess.TimeoutExpired:
            p.kill()
        except OSError:
            pass  # the marker only saves time


def run_shard(prop: str, spec: dict, workdir: Path) -> dict:
    """Run one shard in its own interpreter. Never raises."""
    name = spec["name"]
    out = workdir / f"{name}.json"
    env = worker_env(spec.get("mode", "A"), spec.get("threads"), spec.get("parallel", True), spec.get("env"))
    env["PVMON_WORKDIR"] = str(workdir / name)
    (workdir / name).mkdir(parents=True, exist_ok=True)
    cmd = [PY, "-m", "pvmon.worker", prop, json.dumps(spec), str(out)]
    t0 = time.time()
    res: dict = {"name": name, "spec": spec}
    try:
        proc = subprocess.run(
            cmd, env=env, cwd=str(VERIF), capture_output=True, text=True, timeout=spec.get("timeout", 1500)
        )
    except subprocess.TimeoutExpired:
        res.update({"status": "timeout", "wall_s": time.time() - t0})
        return res
    res["wall_s"] = time.time() - t0
    res["returncode"] = proc.returncode
    if out.exists():
        try:
            res.update(json.loads(out.read_text()))
            res["status"] = "ok"
            return res
        except Exception as exc:  # pylint: disable=broad-except
            res["parse_error"] = repr(exc)
    res["status"] = "crashed"
    res["stderr_tail"] = proc.stderr[-4000:]
    res["stdout_tail"] = proc.stdout[-1000:]
    return res


def load_known() -> list:
    path = VERIF / "known_findings.json"
    if not path.exists():
        return []
    return json.loads(path.read_text()).get("findings", [])


def match_known(prop: str, vio: dict, known: list):
    """A known finding is a predicate over the violation record: every key of entry['match']
    must be equal in the record (lists in the entry mean 'one of')."""
    for ent in known:
        if ent.get("property") != prop or ent.get("status") != "known":
            continue
        ok = True
        for k, want in ent.get("match", {}).items():
            got = vio.get(k)
            if isinstance(want, list):
                if got not in want:
                    ok = False
            elif got != want:
                ok = False
        if ok and ent.get("match"):
            return ent
    return None


def _jsonable(o):
    try:
        import numpy as np  # noqa

        if isinstance(o, np.generic):
            return o.item()
        if isinstance(o, np.ndarray):
            return o.tolist()
    except Exception:  # pylint: disable=broad-except
        pass
    if isinstance(o, (set, frozenset, tuple)):
        return list(o)
    if isinstance(o, float):
        return o
    return repr(o)


def validate_evidence(ev: dict) -> str | None:
    try:
        import jsonschema  # type: ignore
    except Exception as exc:  # pylint: disable=broad-except
        return f"jsonschema unavailable: {exc!r}"
    schema_path = SCHEMA if SCHEMA.exists() else SCHEMA_FALLBACK
    schema = json.loads(schema_path.read_text())
    try:
        jsonschema.validate(ev, schema)
    except jsonschema.ValidationError as exc:  # type: ignore
        return str(exc.message)
    return None


def merge(results: list) -> dict:
    """Merge shard results: sum counters, union digests, gather violations."""
    tot = {
        "evaluations": 0,
        "digests": set(),
        "counters": {},
        "gates": {},
        "samples": [],
        "violations": [],
        "inconclusive": [],
        "out_of_domain": 0,
        "info": {},
    }
    for r in results:
        if r.get("status") != "ok":
            continue
        tot["evaluations"] += int(r.get("evaluations", 0))
        tot["digests"].update(r.get("digests", []))
        tot["out_of_domain"] += int(r.get("out_of_domain", 0))
        for key in ("counters", "gates"):
            for k, v in r.get(key, {}).items():
                tot[key][k] = tot[key].get(k, 0) + v
        for k, v in r.get("info", {}).items():
            if isinstance(v, list):
                cur = tot["info"].setdefault(k, [])
                cap = 200000 if k == "digests" else 5000
                for x in v:
                    if len(cur) < cap and (k == "digests" or x not in cur):
                        cur.append(x)
            elif isinstance(v, (int, float)):
                tot["info"][k] = tot["info"].get(k, 0) + v
            else:
                tot["info"][k] = v
        if len(tot["samples"]) < 6:
            tot["samples"].extend(r.get("samples", [])[: 6 - len(tot["samples"])])
        for v in r.get("violations", []):
            v.setdefault("shard", r["name"])
            v.setdefault("mode", r["spec"].get("mode", "A"))
            tot["violations"].append(v)
        tot["inconclusive"].extend(r.get("inconclusive", []))
    return tot


def write_replay(prop: str, vio: dict) -> Path:
    d = VERIF / "replays" / prop
    d.mkdir(parents=True, exist_ok=True)
    blob = json.dumps(vio, default=_jsonable, sort_keys=True)
    name = hashlib.sha256(blob.encode()).hexdigest()[:16] + ".json"
    path = d / name
    path.write_text(json.dumps({"property": prop, "violation": vio}, default=_jsonable, indent=1))
    return path


def main(argv=None) -> int:
    ap = argparse.ArgumentParser()
    ap.add_argument("prop")
    ap.add_argument("--tier", default=os.environ.get("VERIF_TIER", "quick"), choices=["quick", "thorough"])
    ap.add_argument("--seed", type=int, default=int(os.environ.get("VERIF_SEED", "0") or 0))
    ap.add_argument("--replay", default=None)
    ap.add_argument("--jobs", type=int, default=int(os.environ.get("PVMON_JOBS", "16")))
    ap.add_argument("--only", default=None, help="run only shards whose name contains this")
    ap.add_argument("--no-evidence", action="store_true")
    args = ap.parse_args(argv)
    prop = args.prop.upper()
    t0 = time.time()

    sys.path.insert(0, str(VERIF))
    mod = importlib.import_module(f"pvmon.props.{prop.lower()}")
    workdir = VERIF / ".work" / f"{prop}-{os.getpid()}"
    workdir.mkdir(parents=True, exist_ok=True)
    prune_caches(tree_digest(repo_path()))

    try:
        if args.replay:
            rec = json.loads(Path(args.replay).read_text())
            vio = rec["violation"]
            spec = {
                "name": "replay",
                "mode": vio.get("mode", "A"),
                "replay_case": vio["case"],
                "tier": args.tier,
                "seed": args.seed,
                "timeout": 1800,
            }
            spec.update(vio.get("spec_extra", {}))
            results = [run_shard(prop, spec, workdir)]
        else:
            specs = mod.plan(args.tier, args.seed)
            if args.tier == "thorough":
                # thorough tier: the per-shard case counts of the plans are multiplied so that each property gets
                # 5-10 minutes of exploration on 16 cores (measured on this sandbox)
                scale = THOROUGH_SCALE.get(prop, 1)
                for s in specs:
                    if "n" in s and s.get("work") not in ("sub",):
                        s["n"] = int(s["n"] * scale)
            if args.only:
                specs = [s for s in specs if args.only in s["name"]]
            for s in specs:
                s.setdefault("tier", args.tier)
                s.setdefault("seed", args.seed)
            warm_up(specs)
            with cf.ThreadPoolExecutor(max_workers=max(1, args.jobs)) as ex:
                results = list(ex.map(lambda s: run_shard(prop, s, workdir), specs))
    finally:
        pass

    tot = merge(results)
    inconclusive = list(tot["inconclusive"])
    crashed = []
    for r in results:
        if r.get("status") == "timeout":
            inconclusive.append(f"shard {r['name']} hit its watchdog")
        elif r.get("status") == "crashed":
            crashed.append(r)

    # a shard that died without a result: signal inside the code under test = violation
    for r in crashed:
        rc = r.get("returncode", 0)
        tail = r.get("stderr_tail", "")
        if rc is not None and rc < 0:
            tot["violations"].append(
                {
                    "clause": "process-killed-by-signal",
                    "what": f"shard {r['name']} died on signal {-rc}",
                    "case": {"shard_spec": r["spec"]},
                    "stderr": tail[-1500:],
                    "shard": r["name"],
                    "mode": r["spec"].get("mode", "A"),
                }
            )
        else:
            inconclusive.append(f"shard {r['name']} failed (harness error, rc={rc}): {tail[-600:]}")

    pre_cov: dict = {}
    if hasattr(mod, "finish"):
        try:
            mod.finish(pre_cov, tot, args.tier)
        except Exception as exc:  # pylint: disable=broad-except
            inconclusive.append(f"finish() failed: {exc!r}")
    # gating (only on full runs)
    gate_rules = getattr(mod, "GATES", {})
    if not args.replay and not args.only:
        for gate, minimum in gate_rules.items():
            if isinstance(minimum, dict):
                minimum = minimum[args.tier]
            if tot["gates"].get(gate, 0) < minimum:
                inconclusive.append(f"gating class '{gate}' reached {tot['gates'].get(gate, 0)} < {minimum} times")

    known = load_known()
    known_hits: dict = {}
    real = []
    for v in tot["violations"]:
        ent = match_known(prop, v, known)
        if ent is not None:
            k = ent["key"]
            known_hits.setdefault(k, {"entry": ent, "n": 0})
            known_hits[k]["n"] += 1
        else:
            real.append(v)

    rule = getattr(mod, "RULE", "")
    level = getattr(mod, "LEVEL", "exploration")
    coverage = {
        "evaluations": tot["evaluations"],
        "distinct_nontrivial": len(tot["digests"]) + int(tot["counters"].get("distinct_by_enumeration", 0)),
        "rule": rule,
        "samples": tot["samples"],
        "out_of_domain": tot["out_of_domain"],
        "oracle_counters": tot["counters"],
        "situation_classes_reached": tot["gates"],
        "gating_minimums": {
            k: (v[args.tier] if isinstance(v, dict) else v) for k, v in gate_rules.items()
        },
        "shards": [
            {
                "name": r["name"],
                "mode": r["spec"].get("mode", "A"),
                "status": r.get("status"),
                "wall_s": round(r.get("wall_s", 0.0), 1),
                "evaluations": r.get("evaluations", 0),
            }
            for r in results
        ],
        "sanitizer": {
            "boundscheck_cases": sum(
                int(r.get("evaluations", 0)) for r in results if r["spec"].get("mode") == "B" and r.get("status") == "ok"
            ),
            "as_strided_views_checked": tot["counters"].get("as_strided_views_checked", 0),
        },
        "known_findings_observed": {k: h["n"] for k, h in known_hits.items()},
        "inconclusive_reasons": inconclusive,
        "info": tot["info"],
        "repo": repo_path(),
    }
    coverage.update(pre_cov)
    if getattr(mod, "EXHAUSTIVE", False) and not inconclusive and not args.only and not args.replay:
        coverage["exhaustive"] = True
    verdict = "violated" if real else ("inconclusive" if inconclusive else "held")
    coverage["verdict"] = verdict
    ev = {
        "property_id": prop,
        "tier": args.tier,
        "seed": args.seed,
        "level": level,
        "coverage": coverage,
        "assumptions": getattr(mod, "ASSUMPTIONS", []),
        "wall_s": round(time.time() - t0, 2),
        "violations": len(real),
    }
    ev = json.loads(json.dumps(ev, default=_jsonable))
    if not args.replay and not args.no_evidence and not args.only:
        problem = validate_evidence(ev)
        evdir = VERIF / "evidence"
        evdir.mkdir(exist_ok=True)
        (evdir / f"{prop}.json").write_text(json.dumps(ev, indent=1, sort_keys=True) + "\n")
        if problem:
            print(f"evidence does not validate: {problem}")
            inconclusive.append("evidence invalid: " + problem)

    # report
    print(
        f"[{prop}] tier={args.tier} seed={args.seed} evaluations={tot['evaluations']} "
        f"distinct_nontrivial={len(tot['digests']) + int(tot['counters'].get('distinct_by_enumeration', 0))} shards={len(results)} wall={time.time() - t0:.1f}s"
    )
    for k in sorted(tot["gates"]):
        print(f"   class {k}: {tot['gates'][k]}")
    for k, h in known_hits.items():
        print(f"KNOWN-FINDING: property={prop} {h['entry']['what']} (observed {h['n']}x, key={k})")
    shutil.rmtree(workdir, ignore_errors=True)
    if real:
        seen = set()
        for v in real:
            key = (v.get("clause"), v.get("situation"), v.get("step"))
            if key in seen and len(seen) > 0:
                continue
            seen.add(key)
            path = write_replay(prop, v)
            print(f"   violated clause={v.get('clause')} situation={v.get('situation')} : {str(v.get('what'))[:300]}")
            print(f"VIOLATION property={prop} replay={path}")
            if len(seen) >= 8:
                break
        print(f"   ({len(real)} violating observations in total)")
        return 1
    if inconclusive:
        for r in inconclusive[:10]:
            print(f"INCONCLUSIVE property={prop} reason={r}")
        return 2
    print(f"[{prop}] held on everything explored")
    return 0


if __name__ == "__main__":
    sys.exit(main())
