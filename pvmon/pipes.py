"""Pipelines: the documented automaton (sequencing.rst), word instantiation, inert plugins,
random legal pipelines, and the thin wrappers used to check/run a pipeline on a machine."""
from __future__ import annotations

import copy

import numpy as np

KINDS = [
    "matching_cost",
    "aggregation",
    "optimization",
    "semantic_segmentation",
    "cost_volume_confidence",
    "disparity",
    "filter",
    "refinement",
    "validation",
    "multiscale",
]
CV_KINDS = {"aggregation", "optimization", "semantic_segmentation", "cost_volume_confidence"}
DM_KINDS = {"filter", "refinement", "validation", "multiscale"}


def kind_of(step_key: str) -> str:
    return step_key.split(".")[0]


def dfa_accepts(word) -> bool:
    """The documented machine, written from sequencing.rst (3 states)."""
    state = "begin"
    for key in word:
        k = kind_of(key)
        if state == "begin" and k == "matching_cost":
            state = "cost_volume"
        elif state == "cost_volume" and k in CV_KINDS:
            state = "cost_volume"
        elif state == "cost_volume" and k == "disparity":
            state = "disp_map"
        elif state == "disp_map" and k in DM_KINDS:
            state = "disp_map"
        else:
            return False
    return True


def dfa_final_state(word) -> str | None:
    state = "begin"
    for key in word:
        k = kind_of(key)
        if state == "begin" and k == "matching_cost":
            state = "cost_volume"
        elif state == "cost_volume" and k in CV_KINDS:
            pass
        elif state == "cost_volume" and k == "disparity":
            state = "disp_map"
        elif state == "disp_map" and k in DM_KINDS:
            pass
        else:
            return None
    return state


# ----------------------------------------------------------------------------------------------
# inert plugins for the two step kinds that have no built-in method in this build
# ----------------------------------------------------------------------------------------------
_registered = {"done": False}


def register_plugins() -> None:
    if _registered["done"]:
        return
    from pandora import optimization, semantic_segmentation

    @optimization.AbstractOptimization.register_subclass("verif_opt")
    class VerifOpt(optimization.AbstractOptimization):  # pylint: disable=unused-variable
        """Identity optimisation; margins inherited from the base class (40)."""

        def __init__(self, _img, **cfg):
            self.cfg = dict(cfg)

        def desc(self):
            pass

        def optimize_cv(self, cv, img_left, img_right):
            return cv

    @semantic_segmentation.AbstractSemanticSegmentation.register_subclass("verif_seg")
    class VerifSeg(semantic_segmentation.AbstractSemanticSegmentation):  # pylint: disable=unused-variable
        """Returns the left image unchanged."""

        def __init__(self, _img, **cfg):
            self.cfg = dict(cfg)

        def desc(self):
            pass

        def compute_semantic_segmentation(self, cv, img_left, img_right):
            return img_left

    _registered["done"] = True


# ----------------------------------------------------------------------------------------------
# instantiation of words
# ----------------------------------------------------------------------------------------------
MINIMAL = {
    "matching_cost": {"matching_cost_method": "sad", "window_size": 3},
    "aggregation": {"aggregation_method": "cbca"},
    "optimization": {"optimization_method": "verif_opt"},
    "semantic_segmentation": {"segmentation_method": "verif_seg", "RGB_bands": {"R": "r", "G": "g", "B": "b"}},
    "cost_volume_confidence": {"confidence_method": "std_intensity"},
    "disparity": {"disparity_method": "wta"},
    "filter": {"filter_method": "median"},
    "refinement": {"refinement_method": "vfit"},
    "validation": {"validation_method": "cross_checking_accurate"},
    "multiscale": {"multiscale_method": "fixed_zoom_pyramid"},
}


def keys_for(kinds, suffix_first=None, style="num"):
    """Turn a sequence of kinds into distinct step keys. First occurrence bare unless the kind is in
    suffix_first; repeats get fresh suffixes."""
    seen: dict = {}
    out = []
    for k in kinds:
        n = seen.get(k, 0)
        seen[k] = n + 1
        if n == 0 and not (suffix_first and k in suffix_first):
            out.append(k)
        else:
            other = [x for x in ("filter", "validation", "disparity", "multiscale", "matching_cost", "refinement") if x != k]
            sfx = {"num": str(n), "alpha": "abcdefgh"[n % 8] + str(n), "dotted": f"v{n}.{n + 5}", "word": f"second_pass-{n}",
                   "kindname": f"before_{other[n % len(other)]}"}[style]
            out.append(f"{k}.{sfx}")
    return out


def suffix_bare_steps(keys, params, kinds_to_suffix, tag):
    """Gives the bare (unsuffixed) steps of the listed kinds the suffix tag ('validation' -> 'validation.<tag>'); confidence
    steps are left alone (other steps name them through their suffix). Returns (keys, params)."""
    ren = {k: f"{k}.{tag}" for k in keys if "." not in k and k in kinds_to_suffix and k != "cost_volume_confidence"}
    new_keys = [ren.get(k, k) for k in keys]
    return new_keys, {ren.get(k, k): v for k, v in params.items()}


def instantiate(keys, params=None, multiband=False):
    """keys -> pipeline dict with valid minimal parameters (deep copies)."""
    pipe = {}
    for key in keys:
        k = kind_of(key)
        p = copy.deepcopy(MINIMAL[k])
        if multiband and k == "matching_cost":
            p["band"] = "r"
        if params and key in params:
            p.update(copy.deepcopy(params[key]))
        pipe[key] = p
    return pipe


def needs_bands(keys) -> bool:
    return any(kind_of(k) == "semantic_segmentation" for k in keys)


def sample_word(rng, min_len=2, max_len=10, must_have=None):
    """Sample a word of the DFA language."""
    n_cv = int(rng.integers(0, 4))
    n_dm = int(rng.integers(0, max(1, max_len - 2 - n_cv) + 1))
    cvk = sorted(CV_KINDS)
    dmk = sorted(DM_KINDS)
    word = ["matching_cost"] + [cvk[int(rng.integers(0, len(cvk)))] for _ in range(n_cv)]
    word += ["disparity"] + [dmk[int(rng.integers(0, len(dmk)))] for _ in range(n_dm)]
    return word


# ----------------------------------------------------------------------------------------------
# machine helpers
# ----------------------------------------------------------------------------------------------
def new_machine():
    from pandora.state_machine import PandoraMachine

    return PandoraMachine()


def check(machine, pipe, left, right, use_meta=True):
    """PandoraMachine.check_conf on metadata datasets; returns the completed pipeline dict (a copy)."""
    from pvmon import gen

    ml = gen.metadata_dataset(left) if use_meta else left
    mr = gen.metadata_dataset(right) if use_meta else right
    machine.check_conf({"pipeline": copy.deepcopy(pipe)}, ml, mr)
    return {"pipeline": copy.deepcopy(machine.pipeline_cfg["pipeline"])}


def checked_cfg(machine, pipe):
    """The completed configuration restricted to the steps of pipe, in pipe's order."""
    full = machine.pipeline_cfg["pipeline"]
    return {"pipeline": {k: copy.deepcopy(full[k]) for k in pipe}}


def check_and_run(pipe, left, right, machine=None):
    import pandora

    m = machine or new_machine()
    check(m, pipe, left, right)
    cfg = checked_cfg(m, pipe)
    l, r = pandora.run(m, left, right, cfg)
    return l, r, m, cfg


# ----------------------------------------------------------------------------------------------
# random legal pipelines with parameters (numeric workloads)
# ----------------------------------------------------------------------------------------------
def random_pipeline(rng, rows, cols, validation=None, filling=None, allow_cbca=True, allow_conf=True,
                    post=("refinement", "filter", "validation"), max_post=4, methods=("sad", "ssd", "census", "zncc"),
                    repeat_bias=0.0, subpix_choices=(1, 2, 4), allow_mfi=True):
    """Returns (keys, params, info). Domain rules: window <= image, cbca needs >= 3x3, bilateral/median windows
    inside the image."""
    method = methods[int(rng.integers(0, len(methods)))]
    wmax = min(rows, cols)
    wins = [w for w in ((3, 5) if method == "census" else (1, 3, 5, 7)) if w <= wmax] or [1]
    if method == "census" and wins == [1]:
        method, wins = "sad", [1]
    w = int(wins[int(rng.integers(0, len(wins)))])
    subpix = int(subpix_choices[int(rng.integers(0, len(subpix_choices)))])
    kinds = ["matching_cost"]
    params_by_pos = [{"matching_cost_method": method, "window_size": w, "subpix": subpix}]
    has_ib = False
    if allow_cbca and rng.random() < 0.3 and min(rows, cols) >= max(3, w):
        kinds.append("aggregation")
        params_by_pos.append({"aggregation_method": "cbca", "cbca_distance": int(rng.integers(1, 6)),
                              "cbca_intensity": float(rng.choice([5.0, 30.0, 100.0]))})
    if allow_conf:
        for _ in range(int(rng.integers(0, 3))):
            cm = ["std_intensity", "ambiguity", "risk", "interval_bounds"][int(rng.integers(0, 4))]
            p = {"confidence_method": cm}
            if cm in ("ambiguity", "risk"):
                p["eta_max"] = float(rng.choice([0.3, 0.7]))
                p["eta_step"] = float(rng.choice([0.1, 0.05]))
            if cm == "interval_bounds":
                has_ib = True
            kinds.append("cost_volume_confidence")
            params_by_pos.append(p)
    kinds.append("disparity")
    inv = [-9999, float("nan"), 1e6][int(rng.integers(0, 3))]
    params_by_pos.append({"disparity_method": "wta", "invalid_disparity": inv})
    n_post = int(rng.integers(0, max_post + 1))
    want_val = validation if validation is not None else (rng.random() < 0.5)
    seq = []
    for _ in range(n_post):
        if seq and rng.random() < repeat_bias:
            seq.append(seq[-1])
        else:
            seq.append(post[int(rng.integers(0, len(post)))])
    if want_val and "validation" not in seq and "validation" in post:
        seq.insert(int(rng.integers(0, len(seq) + 1)), "validation")
    if not want_val:
        seq = [s for s in seq if s != "validation"]
    for s in seq:
        kinds.append(s)
        if s == "refinement":
            params_by_pos.append({"refinement_method": ["vfit", "quadratic"][int(rng.integers(0, 2))]})
        elif s == "filter":
            fm = ["median", "bilateral", "median_for_intervals"][int(rng.integers(0, 3 if (has_ib and allow_mfi) else 2))]
            if fm == "bilateral":
                params_by_pos.append({"filter_method": "bilateral", "sigma_space": float(rng.choice([0.5, 1.0, 1.4])),
                                      "sigma_color": float(rng.choice([1.0, 2.0]))})
            else:
                sizes = [s_ for s_ in (1, 3, 5) if s_ <= min(rows, cols)]
                params_by_pos.append({"filter_method": fm, "filter_size": int(sizes[int(rng.integers(0, len(sizes)))])})
        elif s == "validation":
            p = {"validation_method": "cross_checking_accurate",
                 "cross_checking_threshold": float(rng.choice([0.0, 0.4, 1.0, 2.5]))}
            fill = filling if filling is not None else [None, "mc-cnn", "sgm"][int(rng.integers(0, 3))]
            if fill:
                p["interpolated_disparity"] = fill
            params_by_pos.append(p)
    keys = keys_for(kinds)
    params = {k: p for k, p in zip(keys, params_by_pos)}
    # a median_for_intervals filter filters the bands of one interval_bounds step, named by its suffix
    ib_keys = [k for k in keys if params[k].get("confidence_method") == "interval_bounds"]
    for k in keys:
        if params[k].get("filter_method") == "median_for_intervals" and ib_keys:
            sfx = ib_keys[-1].split(".")[1] if "." in ib_keys[-1] else ""
            params[k]["interval_indicator"] = sfx
    info = {"method": method, "window": w, "subpix": subpix, "validation": "validation" in kinds,
            "invalid_disparity": inv}
    return keys, params, info


def build_pipe(keys, params):
    return {k: copy.deepcopy(params[k]) for k in keys}
