"""C14 - occlusion/mismatch filling touches only flagged pixels and fills from valid ones.

Reference model: explicit scan of the documented directions on the mask *as each pass receives
it* (the interpolation classes' pass functions are found by introspection and wrapped); the
filled value is only bounded (range of the visible valid pixels), the estimator is not re-derived."""
from __future__ import annotations

import numpy as np
import xarray as xr

from pvmon import gen, pipes, trace

LEVEL = "exploration"
RULE = (
    "synthetic disparity maps 1x1..40x60 with every layout class of valid / invalid / occluded (8) / mismatched (9) "
    "pixels (isolated, blobs, whole rows, whole image flagged, nothing valid in sight, one valid neighbour, mismatch "
    "touching occlusion, flagged pixels on the image sides), both methods, offsets 0-1; plus the validation-with-"
    "filling steps of traced pipelines. distinct = (method, shape, layout, offset | pipeline); non-trivial = at least "
    "one flagged pixel with a visible valid pixel and one unflagged pixel"
)
ASSUMPTIONS = [
    "occlusion passes: the filled value is judged by its bounds (finite, inside [min,max] of the visible valid pixels; "
    "mc-cnn: exactly the first valid pixel of the row); mismatch passes: also the median of the per-direction first valid pixels",
    "for the 16 half-slope directions of mc-cnn the visible set is the union over three discretisations of the path "
    "(never stricter than any of them)",
    "a flagged pixel with a visible valid pixel may be filled or stay flagged (the statement constrains both outcomes "
    "but does not force the filling)",
]
GATES = {
    "flagged_with_0_visible": 5, "flagged_with_1_visible": 5, "flagged_with_2plus_visible": 5,
    "flagged_on_image_side": 4, "passes_observed": 50, "pipeline_filling_steps": 4, "sgm_mismatch_touching_occlusion": 1,
    "pixels_judged": 5000, "maps_compared_with_the_run_without_filling": 4, "right_map_compared_with_the_run_without_filling": 1,
}
INVALID = 0b1111000011
OCC, MIS, F_OCC, F_MIS = 256, 512, 16, 32
DIR8 = [(0, 1), (-1, 1), (-1, 0), (-1, -1), (0, -1), (1, -1), (1, 0), (1, 1)]
DIR16 = [(0.0, 1.0), (-0.5, 1.0), (-1.0, 1.0), (-1.0, 0.5), (-1.0, 0.0), (-1.0, -0.5), (-1.0, -1.0), (-0.5, -1.0),
         (0.0, -1.0), (0.5, -1.0), (1.0, -1.0), (1.0, -0.5), (1.0, 0.0), (1.0, 0.5), (1.0, 1.0), (0.5, 1.0)]

_passes: list = []
_installed = {"done": False, "n": 0}


def plan(tier, seed):
    specs = []
    n = 4 if tier == "quick" else 12
    for i in range(n):
        specs.append({"name": f"synth-{i}", "work": "synth", "part": i, "n": 75 if tier == "quick" else 670,
                      "mode": "B" if i % 2 else "A", "timeout": 3000})
    n = 2 if tier == "quick" else 8
    for i in range(n):
        specs.append({"name": f"pipe-{i}", "work": "pipe", "part": i, "n": 20 if tier == "quick" else 130,
                      "mode": "B" if i % 2 else "A", "timeout": 3000})
    return specs


def install_pass_hooks(ctx):
    """Wrap every interpolate_* pass function of the registered interpolation classes."""
    if _installed["done"]:
        return
    from pandora import validation

    reg = validation.AbstractInterpolation.interpolation_methods_avail
    for name, cls in reg.items():
        for attr in list(vars(cls)):
            if not attr.startswith("interpolate_"):
                continue
            raw = vars(cls)[attr]
            fn = raw.__func__ if isinstance(raw, staticmethod) else raw

            def make(fn=fn, attr=attr, name=name):
                def wrapped(disp, valid):
                    d0, v0 = np.array(disp, copy=True), np.array(valid, copy=True)
                    out = fn(disp, valid)
                    _passes.append({"method": name, "pass": attr, "d0": d0, "v0": v0,
                                    "d1": np.array(out[0], copy=True), "v1": np.array(out[1], copy=True)})
                    return out

                return wrapped

            setattr(cls, attr, staticmethod(make()))
            _installed["n"] += 1
    _installed["done"] = True


def setup(spec, ctx):
    pipes.register_plugins()
    install_pass_hooks(ctx)
    if _installed["n"] == 0:
        ctx.note("pass_seam", "not found: whole-step fallback only")


def cases(spec, ctx):
    for i in range(spec["n"]):
        yield {"work": spec["work"], "part": spec["part"], "i": i}


def first_valid(valid_ok, y, x, dy, dx, variants):
    """Set of (row, col) of the first valid pixel along a direction, for each discretisation in variants."""
    H, W = valid_ok.shape
    found = set()
    for var in variants:
        i = 0
        while True:
            i += 1
            fy, fx = dy * i, dx * i
            if var == "trunc":
                yy, xx = y + int(fy), x + int(fx)
            elif var == "floor":
                yy, xx = y + int(np.floor(fy)), x + int(np.floor(fx))
            else:
                yy, xx = y + int(np.floor(fy + 0.5)), x + int(np.floor(fx + 0.5))
            if not (0 <= yy < H and 0 <= xx < W):
                break
            if valid_ok[yy, xx]:
                found.add((yy, xx))
                break
            if i > H + W + 2:
                break
    return found


def visible(method, pass_name, valid_ok, y, x):
    if method == "mc-cnn" and "occlusion" in pass_name:
        left = [(y, c) for c in range(x - 1, -1, -1) if valid_ok[y, c]]
        if left:
            return {left[0]}, "exact"
        right = [(y, c) for c in range(x + 1, valid_ok.shape[1]) if valid_ok[y, c]]
        return ({right[0]} if right else set()), "exact"
    if method == "mc-cnn":
        s = set()
        for dy, dx in DIR16:
            s |= first_valid(valid_ok, y, x, dy, dx, ("trunc", "floor", "round"))
        return s, "bound"
    s = set()
    for dy, dx in DIR8:
        s |= first_valid(valid_ok, y, x, dy, dx, ("trunc",))
    return s, "bound"


def judge_pass(ctx, case, desc, p):
    method, name = p["method"], p["pass"]
    d0, v0, d1, v1 = p["d0"], p["v0"].astype(np.int64), p["d1"], p["v1"].astype(np.int64)
    H, W = d0.shape
    target, filled = (OCC, F_OCC) if "occlusion" in name else (MIS, F_MIS)
    valid_ok = (v0 & INVALID) == 0
    ctx.gate("passes_observed")
    n_viol = 0
    for y in range(H):
        for x in range(W):
            a, b = int(v0[y, x]), int(v1[y, x])
            da, db = d0[y, x], d1[y, x]
            same_d = (np.isnan(da) and np.isnan(db)) or da == db
            ctx.gate("pixels_judged")
            if not a & target:
                if a != b or not same_d:
                    ctx.violation("unflagged-pixel-changed", f"{method}/{name}: pixel ({y},{x}) flag {a}->{b} disparity {da!r}->{db!r}",
                                  case, situation=f"{method}:{name}", desc=desc)
                    n_viol += 1
                continue
            vis, kind = visible(method, name, valid_ok, y, x)
            nv = len(vis)
            ctx.gate("flagged_with_0_visible", int(nv == 0))
            ctx.gate("flagged_with_1_visible", int(nv == 1))
            ctx.gate("flagged_with_2plus_visible", int(nv >= 2))
            ctx.gate("flagged_on_image_side", int(y in (0, H - 1) or x in (0, W - 1)))
            # sgm: a mismatch touching an occlusion becomes an occlusion
            if method == "sgm" and target == MIS:
                nb = v0[max(0, y - 1):y + 2, max(0, x - 1):x + 2]
                if (nb & OCC).any():
                    ctx.gate("sgm_mismatch_touching_occlusion")
                    if b != ((a & ~MIS) | OCC) or not same_d:
                        ctx.violation("sgm-mismatch-next-to-occlusion", f"pixel ({y},{x}) flag {a}->{b} disparity {da!r}->{db!r}", case,
                                      situation="sgm", desc=desc)
                        n_viol += 1
                    continue
            stayed = b == a and same_d
            was_filled = b == ((a & ~target) | filled)
            if nv == 0:
                if not stayed:
                    ctx.violation(
                        "filled-without-visible-valid-pixel",
                        f"{method}/{name}: pixel ({y},{x}) has no valid pixel along its scan lines but flag {a}->{b}, disparity "
                        f"{da!r}->{db!r}", case, situation=f"{method}:{name}", desc=desc)
                    n_viol += 1
                continue
            if stayed:
                continue
            if not was_filled:
                ctx.violation("filled-flag", f"{method}/{name}: pixel ({y},{x}) flag {a}->{b}, expected {(a & ~target) | filled}", case,
                              situation=f"{method}:{name}", desc=desc)
                n_viol += 1
                continue
            vals = [float(d0[p_]) for p_ in vis]
            lo, hi = min(vals), max(vals)
            if kind == "exact":
                ok = float(db) == vals[0]
            else:
                ok = np.isfinite(db) and lo - 1e-6 <= float(db) <= hi + 1e-6
            # mismatch passes: 'the median of' the first valid pixels of the scan directions (one value per direction)
            if ok and target == MIS:
                dirs = DIR16 if method == "mc-cnn" else DIR8
                variants = ("trunc", "floor", "round") if method == "mc-cnn" else ("trunc",)
                meds = []
                for var in variants:
                    per_dir = []
                    for dy, dx in dirs:
                        f_ = first_valid(valid_ok, y, x, dy, dx, (var,))
                        per_dir.append(float(d0[next(iter(f_))]) if f_ else np.nan)
                    arr = np.array(per_dir, np.float32)
                    if np.isfinite(arr).any():
                        meds.append(float(np.nanmedian(arr)))
                ctx.count("median_estimator_judged")
                if meds and not any(abs(float(db) - m_) <= 1e-6 * max(1.0, abs(m_)) for m_ in meds):
                    ctx.violation("filled-value-is-not-the-median",
                                  f"{method}/{name}: pixel ({y},{x}) filled with {db!r}; median of the first valid pixels along the "
                                  f"{len(dirs)} directions is {meds}", case, situation=f"{method}:{name}", desc=desc)
                    n_viol += 1
            if not ok:
                ctx.violation(
                    "filled-value-outside-visible-range",
                    f"{method}/{name}: pixel ({y},{x}) filled with {db!r}; visible valid disparities {sorted(vals)[:8]}", case,
                    situation=f"{method}:{name}:{'nan' if not np.isfinite(db) else 'range'}", desc=desc)
                n_viol += 1
            if n_viol > 10:
                return


def judge_step(ctx, case, desc, d0, v0, d1, v1, off, method):
    """Whole-step clauses (the statement's 'hence' bounds), valid whatever the internal passes."""
    v0, v1 = v0.astype(np.int64), v1.astype(np.int64)
    H, W = d0.shape
    flagged = (v0 & (OCC | MIS)) != 0
    border = np.zeros((H, W), bool)
    if off:
        border[:off] = border[-off:] = True
        border[:, :off] = border[:, -off:] = True
    keep = ~flagged & ~border
    if (v0[keep] != v1[keep]).any() or not gen.same(d0[keep], d1[keep]):
        i = np.argwhere(keep & ((v0 != v1) | ~((d0 == d1) | (np.isnan(d0) & np.isnan(d1)))))[0]
        ctx.violation("unflagged-pixel-changed", f"{method}: pixel {i.tolist()} flag {int(v0[tuple(i)])}->{int(v1[tuple(i)])} disparity "
                      f"{d0[tuple(i)]!r}->{d1[tuple(i)]!r}", case, situation=f"{method}:step", desc=desc)
    if border.any() and (v1[border] != 1).any():
        ctx.violation("border-pixel-not-bit0-only", f"{method}: border flags {np.unique(v1[border]).tolist()}", case, desc=desc)
    valid0 = (v0 & INVALID) == 0
    newly = flagged & ~border & ((v1 & (OCC | MIS)) == 0)
    if newly.any():
        if valid0.any():
            lo, hi = float(np.nanmin(d0[valid0])), float(np.nanmax(d0[valid0]))
        else:
            lo, hi = np.inf, -np.inf
        dd = d1[newly]
        bad = ~np.isfinite(dd) | (dd < lo - 1e-6) | (dd > hi + 1e-6)
        if bad.any():
            i = np.argwhere(newly)[np.argmax(bad)]
            ctx.violation("filled-value-outside-map-range", f"{method}: pixel {i.tolist()} filled with {d1[tuple(i)]!r}; valid disparities of the "
                          f"map span [{lo},{hi}]", case, situation=f"{method}:{'nan' if not np.isfinite(d1[tuple(i)]) else 'range'}", desc=desc)
        fl = v1[newly]
        okf = ((fl & (F_OCC | F_MIS)) != 0)
        if not okf.all():
            i = np.argwhere(newly)[np.argmin(okf)]
            ctx.violation("filled-flag", f"{method}: pixel {i.tolist()} flag {int(v0[tuple(i)])}->{int(v1[tuple(i)])}", case, desc=desc)
    other = ~(OCC | MIS | F_OCC | F_MIS)
    ch = ((v0 ^ v1) & other) != 0
    ch &= ~border
    if ch.any():
        i = np.argwhere(ch)[0]
        ctx.violation("foreign-bit-changed-by-filling", f"{method}: pixel {i.tolist()} flag {int(v0[tuple(i)])}->{int(v1[tuple(i)])}", case, desc=desc)


LAYOUTS = ["isolated", "blobs", "rows", "all-flagged", "no-valid", "one-valid", "mixed", "sides", "sgm-touch"]


def make_layout(rng, H, W, layout):
    m = np.zeros((H, W), np.uint16)
    if layout == "isolated":
        n = max(1, H * W // 10)
        m[rng.integers(0, H, n), rng.integers(0, W, n)] = rng.choice([OCC, MIS], n)
    elif layout == "blobs":
        for _ in range(3):
            y, x = rng.integers(0, H), rng.integers(0, W)
            m[y:y + rng.integers(1, 5), x:x + rng.integers(1, 6)] = int(rng.choice([OCC, MIS]))
    elif layout == "rows":
        m[int(rng.integers(0, H))] = int(rng.choice([OCC, MIS]))
        m[:, int(rng.integers(0, W))] = int(rng.choice([OCC, MIS]))
    elif layout == "all-flagged":
        m[:] = rng.choice(np.array([OCC, MIS], np.uint16), (H, W))
    elif layout == "no-valid":
        m[:] = rng.choice(np.array([OCC, MIS, 1, 2, 64, 128], np.uint16), (H, W))
    elif layout == "one-valid":
        m[:] = rng.choice(np.array([OCC, MIS, 2, 64], np.uint16), (H, W))
        m[int(rng.integers(0, H)), int(rng.integers(0, W))] = 0
    elif layout == "sides":
        m[0, :] = MIS
        m[-1, :] = OCC
        m[:, 0] = int(rng.choice([OCC, MIS]))
        m[:, -1] = int(rng.choice([OCC, MIS]))
    elif layout == "sgm-touch":
        n = max(1, H * W // 8)
        ys, xs = rng.integers(0, H, n), rng.integers(0, W, n)
        m[ys, xs] = MIS
        m[np.clip(ys + 1, 0, H - 1), xs] = OCC
    else:
        m[:] = rng.choice(np.array([0, 0, 0, 4, 8, 16, 32, 2048, OCC, MIS, OCC, MIS, 1, 2, 64, 128, OCC + 4, MIS + 8], np.uint16), (H, W))
    return m


def run_case(case, ctx):
    from pandora import validation

    if case["work"] == "pipe":
        return _pipe(case, ctx)
    rng = ctx.rng("synth", case["part"], case["i"])
    big = case["i"] % 30 == 0
    H, W = (int(rng.integers(20, 40)), int(rng.integers(30, 60))) if big else (int(rng.integers(1, 9)), int(rng.integers(1, 11)))
    layout = LAYOUTS[int(rng.integers(0, len(LAYOUTS)))]
    method = ["mc-cnn", "sgm"][int(rng.integers(0, 2))]
    m = make_layout(rng, H, W, layout)
    off = 1 if (min(H, W) >= 4 and rng.random() < 0.3) else 0
    if off:
        m[:off] = m[-off:] = 1
        m[:, :off] = m[:, -off:] = 1
    d = (rng.integers(-12, 13, (H, W)) * float(rng.choice([1, 0.5, 0.25]))).astype(np.float32)
    inv = [-9999.0, np.nan][int(rng.integers(0, 2))]
    d[(m & 0b0011000011) != 0] = inv
    ds = xr.Dataset({"disparity_map": (["row", "col"], d.copy()), "validity_mask": (["row", "col"], m.copy())},
                    coords={"row": np.arange(H), "col": np.arange(W)})
    ds.attrs = {"offset_row_col": off}
    desc = {"method": method, "shape": [H, W], "layout": layout, "offset": off, "invalid_disparity": repr(inv)}
    itp = validation.AbstractInterpolation(interpolated_disparity=method)
    _passes.clear()
    itp.interpolated_disparity(ds)
    for p in list(_passes):
        judge_pass(ctx, case, desc, p)
    judge_step(ctx, case, desc, d, m, ds["disparity_map"].data, ds["validity_mask"].data, off, method)
    fl = (m & (OCC | MIS)) != 0
    ctx.case([desc[k] for k in sorted(desc)], nontrivial=bool(fl.any() and (~fl).any() and ((m & INVALID) == 0).any()))
    if ctx.evaluations <= 2:
        ctx.sample({"case": desc, "flags_before": m.tolist() if H * W <= 40 else "large", "flags_after": ds["validity_mask"].data.tolist() if H * W <= 40 else "large"})


def gen_same_elem(x, y):
    return (x == y) | (np.isnan(x) & np.isnan(y))


def _pipe(case, ctx):
    import pandora

    rng = ctx.rng("pipe", case["part"], case["i"])
    rows, cols = int(rng.integers(6, 22)), int(rng.integers(8, 28))
    fill = ["mc-cnn", "sgm"][int(rng.integers(0, 2))]
    keys, params, info = pipes.random_pipeline(rng, rows, cols, validation=True, filling=fill, max_post=3, allow_mfi=False,
                                               allow_conf=False)
    tex = gen.TEXTURES[int(rng.integers(0, 5))]
    l, r = gen.stereo_pair(rng, rows, cols, tex, max_shift=3, noise=6)
    lm = gen.mask(rng, rows, cols, gen.MASK_KINDS[int(rng.integers(0, 9))]) if rng.random() < 0.4 else None
    a, b = gen.interval(rng, cols, ["neg", "pos", "straddle", "straddle"][int(rng.integers(0, 4))])
    left = gen.make_dataset(l, (a, b), lm)
    right = gen.make_dataset(r, None, None)
    pipe = pipes.build_pipe(keys, params)
    m = pipes.new_machine()
    pipes.check(m, pipe, left, right)
    cfg = pipes.checked_cfg(m, pipe)
    desc = {"pipeline": keys, "params": {k: params[k] for k in keys}, "shape": [rows, cols], "disp": [a, b]}
    # whole filling observed at the class boundary (interpolated_disparity of the registered classes)
    from pandora import validation
    seen = []
    undo = []
    for name, cls in validation.AbstractInterpolation.interpolation_methods_avail.items():
        orig = cls.interpolated_disparity

        def make(orig=orig, name=name):
            def w(self_, left_ds, *a_, **k_):
                d0 = left_ds["disparity_map"].data.copy()
                v0 = left_ds["validity_mask"].data.copy()
                res = orig(self_, left_ds, *a_, **k_)
                seen.append((name, d0, v0, left_ds["disparity_map"].data.copy(), left_ds["validity_mask"].data.copy(),
                             int(left_ds.attrs["offset_row_col"])))
                return res
            return w
        cls.interpolated_disparity = make()
        undo.append((cls, orig))
    _passes.clear()
    try:
        pandora.run(m, left, right, cfg)
    finally:
        for cls, orig in undo:
            cls.interpolated_disparity = orig
    for p in list(_passes):
        judge_pass(ctx, case, desc, p)
    for name, d0, v0, d1, v1, off in seen:
        judge_step(ctx, case, desc, d0, v0, d1, v1, off, name)
        ctx.gate("pipeline_filling_steps")
    # end to end, on both maps: the same pipeline without the filling option tells which pixels the cross-check flags; the
    # filling may change those pixels only, and leaves each of them either filled (bit 4 / 5) or still flagged
    vkeys = [k for k in keys if pipes.kind_of(k) == "validation"]
    if len(vkeys) == 1 and keys[-1] == vkeys[0]:
        lres, rres = m.left_disparity, m.right_disparity
        params0 = {k: dict(v) for k, v in params.items()}
        params0[vkeys[0]].pop("interpolated_disparity", None)
        l0, r0, _, _ = pipes.check_and_run(pipes.build_pipe(keys, params0), gen.make_dataset(l, (a, b), lm), gen.make_dataset(r, None, None))
        for side, plain, filled in (("left", l0, lres), ("right", r0, rres)):
            if filled is None or "validity_mask" not in filled:
                continue
            m0, m1 = plain["validity_mask"].data.astype(np.int64), filled["validity_mask"].data.astype(np.int64)
            d0_, d1_ = plain["disparity_map"].data, filled["disparity_map"].data
            flagged = (m0 & (256 | 512)) != 0
            ctx.gate("maps_compared_with_the_run_without_filling")
            ctx.gate("right_map_compared_with_the_run_without_filling", int(side == "right" and bool(flagged.any())))
            other = ~flagged & ~(gen_same_elem(d0_, d1_) & (m0 == m1))
            if other.any():
                i = np.argwhere(other)[0]
                ctx.violation("filling-changed-a-pixel-the-cross-check-did-not-flag",
                              f"{side} map pixel {i.tolist()}: flag {int(m0[tuple(i)])} -> {int(m1[tuple(i)])}, disparity {d0_[tuple(i)]!r} -> "
                              f"{d1_[tuple(i)]!r} (run without filling -> run with {fill})", case, situation=f"{fill}:{side}", desc=desc)
            bad = flagged & ((m1 & (16 | 32 | 256 | 512)) == 0)
            if bad.any():
                i = np.argwhere(bad)[0]
                ctx.violation("flagged-pixel-neither-filled-nor-flagged",
                              f"{side} map pixel {i.tolist()}: flag {int(m0[tuple(i)])} -> {int(m1[tuple(i)])}", case, situation=f"{fill}:{side}", desc=desc)
    ctx.case(["pipe", keys, desc["params"], [rows, cols], [a, b]], nontrivial=len(seen) > 0)
