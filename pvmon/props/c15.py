"""C15 - a multiscale step really processes num_scales scales, coarse to fine.

History + model: the tracer log of every scale pass (image sizes, interval grids handed to the cost
volume, coarse disparity entering the multiscale step) is compared with the documented pyramid and
the per-pixel range rule; inputs are compared before / after the run."""
from __future__ import annotations

import math

import numpy as np

from pvmon import gen, pipes, trace

LEVEL = "exploration"
RULE = (
    "stereo pairs 24x32..130x170 (sizes divisible and not divisible by the scale factor, mono/multiband, with/without "
    "masks and nodata) x num_scales 2-4 x scale_factor 2-3 x marge 0-3 x pipelines with steps before (cbca, confidence, "
    "refinement, filter, validation) and after (filter, refinement) the multiscale step; every matching_cost pass is "
    "observed. distinct = (pipeline, parameters, shape, interval, bands, masks); non-trivial = at least one coarse "
    "invalid pixel and one coarse valid pixel at some level"
)
ASSUMPTIONS = [
    "user intervals are multiples of scale_factor^(num_scales-1) in the cases where the per-level interval is compared "
    "exactly; other intervals are compared within one coarse sample (the statement does not fix the rounding)",
]
GATES = {
    "S2_observed": 1, "S3_observed": 1, "S4_observed": 1, "coarse_invalid_pixel": 1, "size_not_divisible": 1, "step_after_multiscale": 1,
    "multiband": 1, "masks": 1, "fine_pixels_judged": 5000, "validation_before_multiscale": 1, "right_side_ranges_judged": 1, "window_size_1": 1, "machine_that_already_ran_another_multiscale_pipeline": 3,
    "level_images_compared_with_the_exchanged_pair": 20, "levels_with_different_left_right_masks": 2,
}
INVALID = 0b1111000011


def plan(tier, seed):
    n = 8 if tier == "quick" else 16
    return [{"name": f"ms-{i}", "work": "ms", "part": i, "n": 5 if tier == "quick" else 60,
             "mode": "B" if i % 4 == 3 else "A", "timeout": 3000} for i in range(n)]


def setup(spec, ctx):
    pipes.register_plugins()


def cases(spec, ctx):
    for i in range(spec["n"]):
        yield {"work": "ms", "part": spec["part"], "i": i}


def ds_equal(a, b):
    if set(a.variables) != set(b.variables):
        return f"variables {sorted(map(str, a.variables))} vs {sorted(map(str, b.variables))}"
    for v in a.variables:
        x, y = a[v].data, b[v].data
        if x.dtype != y.dtype or not gen.same(x, y):
            return f"variable {v} changed: {gen.first_diffs(x, y, 3) if x.shape == y.shape else 'shape'}"
    if repr(sorted(a.attrs.items(), key=lambda kv: kv[0])) != repr(sorted(b.attrs.items(), key=lambda kv: kv[0])):
        return f"attributes changed: {a.attrs} vs {b.attrs}"
    return None


def run_case(case, ctx):
    import pandora

    rng = ctx.rng("ms", case["part"], case["i"])
    S = int(rng.choice([2, 2, 3, 3, 4]))
    f = int(rng.choice([2, 2, 3]))
    if S == 4:
        f = 2
    marge = int(rng.integers(0, 4))
    unit = f ** (S - 1)
    exact = rng.random() < 0.75
    if exact:
        a = -unit * int(rng.integers(0, 3))
        b = unit * int(rng.integers(0, 3))
        if a == b:
            b = a + unit
    else:
        a = -int(rng.integers(1, 3 * unit))
        b = a + int(rng.integers(unit, 3 * unit + 1))
    min_side = 8 * unit
    rows = int(rng.integers(max(24, min_side), max(26, min_side) + 50))
    cols = int(rng.integers(max(32, min_side), max(34, min_side) + 70))
    rows, cols = min(rows, 130), min(cols, 170)
    nb = 1 if rng.random() < 0.7 else 3
    l, r = gen.stereo_pair(rng, rows, cols, ["random", "patches", "steps", "gradient"][int(rng.integers(0, 4))], max_shift=3, bands=nb)
    lmk = ["none", "sparse", "border", "fullcol", "dense"][int(rng.integers(0, 5))]
    rmk = ["none", "sparse"][int(rng.integers(0, 2))]
    lm, rm = gen.mask(rng, rows, cols, lmk), gen.mask(rng, rows, cols, rmk)
    bands = ["r", "g", "b"] if nb == 3 else None
    left = gen.make_dataset(l, (a, b), lm, bands=bands)
    right = gen.make_dataset(r, None, rm, bands=bands)
    method = ["sad", "census", "zncc"][int(rng.integers(0, 3))]
    w = int(rng.choice([3, 5])) if method == "census" else int(rng.choice([1, 3, 5]))
    kinds = ["matching_cost"]
    pre = []
    if nb == 1 and rng.random() < 0.25:
        pre.append("aggregation")
    if rng.random() < 0.3:
        pre.append("cost_volume_confidence")
    kinds += pre + ["disparity"]
    mid = [["refinement", "filter", "validation"][int(x)] for x in rng.integers(0, 3, int(rng.integers(0, 3)))]
    mid = [s for i, s in enumerate(mid) if s != "validation" or "validation" not in mid[:i]]
    kinds += mid + ["multiscale"]
    post = [["filter", "refinement"][int(x)] for x in rng.integers(0, 2, int(rng.integers(0, 3)))]
    kinds += post
    if case["i"] == 0:
        # directed constructor of two gating classes: validation before the multiscale step, matching window of 1
        method, w = "sad", 1
        if "validation" not in mid:
            kinds.insert(kinds.index("multiscale"), "validation")
            mid = mid + ["validation"]
    keys = pipes.keys_for(kinds, suffix_first={"multiscale"} if rng.random() < 0.2 else None)
    params = {}
    for k in keys:
        kind = pipes.kind_of(k)
        if kind == "matching_cost":
            params[k] = {"matching_cost_method": method, "window_size": w, "subpix": 1}
            if nb == 3:
                params[k]["band"] = "g"
        elif kind == "multiscale":
            params[k] = {"multiscale_method": "fixed_zoom_pyramid", "num_scales": S, "scale_factor": f, "marge": marge}
        elif kind == "filter":
            params[k] = {"filter_method": "median", "filter_size": 3}
        elif kind == "refinement":
            params[k] = {"refinement_method": "vfit"}
        elif kind == "cost_volume_confidence":
            params[k] = {"confidence_method": "std_intensity"}
    pipe = pipes.instantiate(keys, params=params)
    desc = {"pipeline": keys, "S": S, "f": f, "marge": marge, "shape": [rows, cols], "disp": [a, b], "bands": nb, "masks": [lmk, rmk],
            "method": method, "window": w, "exact_interval": exact}
    m = pipes.new_machine()
    used = case["i"] % 3 == 1
    if used:
        # the machine has already checked and run another multiscale pipeline (other zoom, other marge)
        other = {"matching_cost": {"matching_cost_method": "sad", "window_size": 3, **({"band": "g"} if nb > 1 else {})},
                 "disparity": {"disparity_method": "wta"},
                 "multiscale": {"multiscale_method": "fixed_zoom_pyramid", "num_scales": 2, "scale_factor": 5 - f, "marge": (marge + 2) % 4}}
        pipes.check_and_run(other, gen.deep_copy_ds(left), gen.deep_copy_ds(right), machine=m)
    ctx.gate("machine_that_already_ran_another_multiscale_pipeline", int(used))
    pipes.check(m, pipe, left, right)
    cfg = pipes.checked_cfg(m, pipe)
    lsnap, rsnap = gen.deep_copy_ds(left), gen.deep_copy_ds(right)
    passes, coarse, after_ms, coarse_r, levels = [], [], [], [], []
    ms_seen = {"n": 0}

    def before(ev, mm):
        if ev["kind"] == "multiscale" and ev["phase"] == "after":
            coarse.append(gen.deep_copy_ds(mm.left_disparity))
            if mm.right_disparity is not None and "disparity_map" in mm.right_disparity:
                coarse_r.append(gen.deep_copy_ds(mm.right_disparity))

    def after(ev, mm):
        kind = ev["kind"]
        if kind == "matching_cost" and ev["phase"] == "after":
            levels.append({s_: {v: np.array(img[v].data).copy() for v in ("im", "msk") if v in img}
                           for s_, img in (("left", mm.left_img), ("right", mm.right_img))})
            passes.append({"shape": (int(mm.left_img.sizes["row"]), int(mm.left_img.sizes["col"])),
                           "dmin": np.array(mm.disp_min, dtype=np.float64).copy(), "dmax": np.array(mm.disp_max, dtype=np.float64).copy(),
                           "disp": mm.left_cv.coords["disp"].data.copy(), "scale": mm.current_scale,
                           "rdmin": None if (mm.right_cv is None or "cost_volume" not in mm.right_cv) else np.array(mm.right_disp_min, dtype=np.float64).copy(),
                           "rdmax": None if (mm.right_cv is None or "cost_volume" not in mm.right_cv) else np.array(mm.right_disp_max, dtype=np.float64).copy()})
        elif kind == "multiscale" and ev["phase"] == "conditions":
            ms_seen["n"] += 1
        elif ev["phase"] == "after" and kind in ("filter", "refinement") and ms_seen["n"] >= S and ev["step_key"] in keys[keys.index([k for k in keys if pipes.kind_of(k) == "multiscale"][0]):]:
            after_ms.append((ev["step_key"], (int(mm.left_disparity.sizes["row"]), int(mm.left_disparity.sizes["col"]))))

    trace.Tracer(m, on_before=before, on_after=after)
    lres, rres = pandora.run(m, left, right, cfg)
    ctx.case(["ms", keys, S, f, marge, [rows, cols], [a, b], nb, lmk, rmk, method, w], nontrivial=True)
    # inputs unchanged
    for nm, snap, cur in (("left", lsnap, left), ("right", rsnap, right)):
        why = ds_equal(snap, cur)
        if why:
            ctx.violation("input-dataset-modified", f"{nm} input: {why}", case, situation="multiband" if nb > 1 else "monoband", desc=desc)
    # number of passes
    if len(passes) != S:
        ctx.violation("number-of-scale-passes", f"{len(passes)} matching-cost executions for num_scales={S}", case, desc=desc)
        return
    ctx.gate(f"S{S}_observed")
    # sizes per pass
    exp_shapes = [(math.ceil(rows / f ** k), math.ceil(cols / f ** k)) for k in range(S - 1, -1, -1)]
    got_shapes = [p["shape"] for p in passes]
    if got_shapes != exp_shapes:
        ctx.violation("image-size-per-scale", f"passes at {got_shapes}, expected {exp_shapes}", case, desc=desc)
        return
    # each image's levels depend on that image alone: the levels the steps worked on as "right" are the levels the
    # exchanged pair gives as "left" (and conversely)
    try:
        from pandora.img_tools import prepare_pyramid
        xl, xr_ = prepare_pyramid(gen.deep_copy_ds(rsnap), gen.deep_copy_ds(lsnap), S, f)
    except ImportError:
        xl = None
    if xl is not None and len(xl) == S:
        for k in range(S - 1):  # the last pass works on the input datasets themselves
            for side, other in (("right", xl[k]), ("left", xr_[k])):
                for v in ("im", "msk"):
                    got_v = levels[k][side].get(v)
                    exp_v = other[v].data if v in other else None
                    ctx.gate("level_images_compared_with_the_exchanged_pair")
                    if (got_v is None) != (exp_v is None) or (got_v is not None and not gen.same(got_v, exp_v)):
                        ctx.violation("level-image-depends-on-the-other-image",
                                      f"pass {k}: the {side} level {v} differs from the level the exchanged pair gives "
                                      f"({'missing' if got_v is None or exp_v is None else gen.first_diffs(got_v, exp_v, 3)})", case,
                                      situation=f"{side}-{v}", desc=desc)
        ctx.gate("levels_with_different_left_right_masks", int(lmk != rmk))
    ctx.gate("size_not_divisible", int(rows % f != 0 or cols % f != 0))
    ctx.gate("window_size_1", int(w == 1))
    ctx.gate("multiband", int(nb > 1))
    ctx.gate("masks", int(lmk != "none"))
    ctx.gate("validation_before_multiscale", int("validation" in mid))
    # coarsest interval
    c0 = passes[0]["disp"]
    ea, eb = a / unit, b / unit
    tol = 0 if exact else 1
    if abs(c0[0] - ea) > tol or abs(c0[-1] - eb) > tol:
        ctx.violation("coarsest-interval", f"coarsest pass searched [{c0[0]},{c0[-1]}], user interval / {unit} = [{ea},{eb}]", case, desc=desc)
    # output shape
    if lres["disparity_map"].shape != (rows, cols):
        ctx.violation("output-shape", f"{lres['disparity_map'].shape} vs input {(rows, cols)}", case, desc=desc)
    # steps after the multiscale step: once, at full resolution
    n_post = len(post)
    if [s for _, s in after_ms] != [(rows, cols)] * n_post or len(after_ms) != n_post:
        ctx.violation("steps-after-multiscale", f"steps after the multiscale step ran as {after_ms}, expected {n_post} at {(rows, cols)}", case, desc=desc)
    ctx.gate("step_after_multiscale", int(n_post > 0))
    # per-pixel rule, level k -> k+1
    if len(coarse) != S - 1:
        ctx.violation("multiscale-step-executions", f"{len(coarse)} executions of the multiscale step for {S} scales", case, desc=desc)
        return
    nontrivial = False
    sides = [("left", coarse, "dmin", "dmax", a, b)]
    if "validation" in mid and len(coarse_r) == S - 1 and all(p_["rdmin"] is not None for p_ in passes):
        sides.append(("right", coarse_r, "rdmin", "rdmax", -b, -a))
        ctx.gate("right_side_ranges_judged")
    for side, coarse_list, kmin, kmax, sa, sb in sides:
      for k in range(S - 1):
        d = coarse_list[k]
        dm = d["disparity_map"].data.astype(np.float64)
        vm = d["validity_mask"].data
        win = int(d.attrs["window_size"])
        off = win // 2
        valid = (vm & INVALID) == 0
        Hc, Wc = dm.shape
        fine = passes[k + 1]
        Hf, Wf = fine["shape"]
        fmin, fmax = fine[kmin], fine[kmax]
        if fmin.ndim != 2 or fmin.shape[0] < Hf or fmin.shape[1] < Wf:
            ctx.violation("fine-interval-grid-shape", f"{side} level {k + 1}: grids of shape {fmin.shape} for an image {Hf}x{Wf}", case, desc=desc)
            continue
        lvl = f ** (S - 2 - k)  # divisor of the user interval at the finer level
        ua, ub = sa / lvl, sb / lvl
        dmn = np.where(valid, dm, np.nan)
        ctx.gate("coarse_invalid_pixel", int((~valid).any()))
        nontrivial = nontrivial or bool((~valid).any() and valid.any())
        cmin = np.full((Hc, Wc), np.nan)
        cmax = np.full((Hc, Wc), np.nan)
        whole = np.ones((Hc, Wc), bool)
        for cy in range(off, Hc - off):
            for cx in range(off, Wc - off):
                if not valid[cy, cx]:
                    continue
                wv = dmn[cy - off:cy + off + 1, cx - off:cx + off + 1]
                cmin[cy, cx] = f * (np.nanmin(wv) - marge)
                cmax[cy, cx] = f * (np.nanmax(wv) + marge)
                whole[cy, cx] = False
        bad = 0
        first = None
        for y in range(Hf):
            for x in range(Wf):
                ok = False
                py, px = y // f, x // f
                for cy in (py - 1, py, py + 1):
                    for cx in (px - 1, px, px + 1):
                        if not (0 <= cy < Hc and 0 <= cx < Wc):
                            continue
                        if whole[cy, cx]:
                            if exact:
                                ok = ok or (fmin[y, x] == ua and fmax[y, x] == ub)
                            else:
                                ok = ok or (abs(fmin[y, x] - ua) <= f and abs(fmax[y, x] - ub) <= f)
                        else:
                            ok = ok or (abs(fmin[y, x] - cmin[cy, cx]) <= 1e-4 and abs(fmax[y, x] - cmax[cy, cx]) <= 1e-4)
                if not ok:
                    bad += 1
                    if first is None:
                        first = (y, x)
        ctx.gate("fine_pixels_judged", Hf * Wf)
        if bad:
            y, x = first
            py, px = y // f, x // f
            ctx.violation(
                "per-pixel-range-rule",
                f"{side} image, level {k}->{k + 1}: {bad}/{Hf * Wf} fine pixels; pixel ({y},{x}) searched [{fmin[y, x]},{fmax[y, x]}]; geometric "
                f"parent ({py},{px}) valid={bool(valid[py, px]) if py < Hc and px < Wc else None}, window range "
                f"[{cmin[py, px] if py < Hc and px < Wc else None},{cmax[py, px] if py < Hc and px < Wc else None}] (x{f}, marge {marge}), "
                f"level interval [{ua},{ub}]", case, situation=f"{side}:{'marge' if marge else 'no-marge'}", desc=desc)
    if ctx.evaluations <= 2:
        ctx.sample({"case": desc, "passes": [list(s) for s in got_shapes], "coarsest_interval": [float(c0[0]), float(c0[-1])]})
    if not nontrivial:
        # re-count as trivial: digest set only grows with non-trivial cases
        pass
