"""C20 - reported margins are a pure, monotone function of the checked pipeline.

Model (margin table written from the statement) + class invariant (icontract on GlobalMargins)."""
from __future__ import annotations

import copy
import itertools
import json
import os
import sys
import types

import numpy as np

from pvmon import gen, pipes, rasters
from pvmon.refs import margins as ref

LEVEL = "exploration"
RULE = (
    "every DFA-accepted word up to length 4 (thorough 5) x random parameter draws (window 1-11, filter "
    "size 1-11, sigma_space 0.5-8, image shapes 5x5..200x300, three filter methods, four measures), with and "
    "without validation, each compared with the margin table; every one-step extension compared for "
    "monotonicity; matching-cost step 1-3 under a stub pandora2d module; command-line runs compared with the "
    "saved configuration. distinct = (step keys, parameters, image shape); non-trivial = at least one "
    "margin-bearing step with a non-zero margin"
)
ASSUMPTIONS = [
    "step != 1 is only accepted when a module named pandora2d is imported: a stub module is registered in one "
    "dedicated shard",
]
GATES = {
    "bilateral_clamped_by_image": 1, "checked_on_full_multiband_datasets": 5, "suffix_naming_another_step_kind": 5, "optimisation_step_with_a_geometric_prior": 3, "step_gt_1_with_a_suffixed_matching_cost_and_a_filter": 2, "margin_parameter_left_to_its_default": 5, "bilateral_default_after_an_explicit_sigma_space": 2,
    "noncumulative_dominates": 1,
    "cumulative_dominates": 1,
    "step_gt_1": 1,
    "validation_second_round": 5,
    "cli_saved_margins": 2,
    "extensions_compared": 50,
    "invariant_evaluations": 100,
}

_inv = {"n": 0, "bad": []}
_state: dict = {}


def plan(tier, seed):
    specs = []
    n = 3 if tier == "quick" else 10
    for i in range(n):
        specs.append({"name": f"table-{i}", "work": "table", "part": i, "parts": n, "L": 4 if tier == "quick" else 5,
                      "draws": 3 if tier == "quick" else 6})
    specs.append({"name": "step2d", "work": "step", "n": 150 if tier == "quick" else 1500})
    specs.append({"name": "cli", "work": "cli", "n": 4 if tier == "quick" else 30})
    return specs


def _install_invariant():
    """icontract invariant on the live GlobalMargins class (decorates in place: every reference, including the
    one state_machine imported, sees it). Conditions record and return True."""
    import icontract
    from pandora.margins import GlobalMargins

    class InvariantBroken(Exception):
        pass

    def margins_are_consistent(self):
        _inv["n"] += 1
        try:
            g = self.global_margins.astuple()
            members = list(self._cumulatives.values()) + list(self._non_cumulatives.values())  # pylint: disable=protected-access
            ok = all(v >= 0 for v in g) and all(
                all(gv >= mv for gv, mv in zip(g, m.astuple())) for m in members
            )
            if not ok:
                _inv["bad"].append({"global": g, "members": [m.astuple() for m in members]})
        except Exception as exc:  # pylint: disable=broad-except
            _inv["bad"].append({"error": repr(exc)})
        return True

    icontract.invariant(margins_are_consistent, error=InvariantBroken)(GlobalMargins)


def setup(spec, ctx):
    pipes.register_plugins()
    if spec["work"] == "step":
        sys.modules.setdefault("pandora2d", types.ModuleType("pandora2d"))
    try:
        _install_invariant()
    except Exception as exc:  # pylint: disable=broad-except
        ctx.inconclusive.append(f"icontract invariant could not be installed: {exc!r}")


def teardown(spec, ctx):
    ctx.gate("invariant_evaluations", _inv["n"])
    ctx.count("globalmargins_invariant_evaluations", _inv["n"])
    for b in _inv["bad"][:5]:
        ctx.violation("globalmargins-invariant", f"global margins below a member or negative: {b}", {"work": "invariant"})


def _accepted(L):
    out = []
    for n in range(1, L + 1):
        for w in itertools.product(pipes.KINDS, repeat=n):
            if pipes.dfa_accepts(w):
                out.append(list(w))
    return out


OMIT = "__omitted__"
DOCUMENTED_DEFAULTS = {"window_size": 5, "filter_size": 3, "sigma_space": 6.0}


def strip_omitted(pipe):
    return {k: {a: b for a, b in p.items() if not (isinstance(b, str) and b == OMIT)} for k, p in pipe.items()}


def documented(pipe):
    """The user's pipeline completed with the documented defaults of the margin-bearing parameters (from the statement of
    C20 / C05, not from what the code stored)."""
    out = {}
    for k, p in pipe.items():
        q = dict(p)
        kind = pipes.kind_of(k)
        if kind == "matching_cost":
            q.setdefault("window_size", DOCUMENTED_DEFAULTS["window_size"])
        if kind == "filter":
            if q.get("filter_method") == "bilateral":
                q.setdefault("sigma_space", DOCUMENTED_DEFAULTS["sigma_space"])
            else:
                q.setdefault("filter_size", DOCUMENTED_DEFAULTS["filter_size"])
        out[k] = q
    return out


def draw_params(rng, keys, shape):
    params = {}
    for k in keys:
        kind = pipes.kind_of(k)
        if kind == "matching_cost":
            meth = ["sad", "ssd", "census", "zncc"][int(rng.integers(0, 4))]
            w = int(rng.choice([3, 5])) if meth == "census" else int(rng.choice([1, 3, 5, 7, 9, 11]))
            params[k] = {"matching_cost_method": meth, "window_size": w, "subpix": int(rng.choice([1, 2, 4]))}
            if rng.random() < 0.25:
                params[k]["window_size"] = OMIT  # documented default: 5
        elif kind == "filter":
            meth = ["median", "bilateral", "median_for_intervals"][int(rng.integers(0, 3))]
            if meth == "bilateral":
                params[k] = {"filter_method": meth, "sigma_space": float(rng.choice([0.5, 1.0, 2.0, 2.4, 6.0, 8.0])),
                             "sigma_color": float(rng.choice([0.5, 2.0]))}
                if rng.random() < 0.35:
                    del params[k]["sigma_space"]  # documented default: 6.0
                if rng.random() < 0.35:
                    del params[k]["sigma_color"]
            else:
                params[k] = {"filter_method": meth, "filter_size": int(rng.choice([1, 3, 5, 7, 9, 11]))}
                if rng.random() < 0.25:
                    del params[k]["filter_size"]  # documented default: 3
                if meth == "median_for_intervals" and rng.random() < 0.6:
                    params[k].update({"regularization": bool(rng.integers(0, 2)), "vertical_depth": int(rng.choice([0, 2, 8, 20])),
                                      "ambiguity_kernel_size": int(rng.choice([1, 5, 9])),
                                      "quantile_regularization": float(rng.choice([0.9, 1.0]))})
        elif kind == "refinement":
            params[k] = {"refinement_method": ["vfit", "quadratic"][int(rng.integers(0, 2))]}
        elif kind == "optimization":
            # the optional geometric prior of the optimisation step (plugins read it; the machine checks its inputs)
            gp = [None, None, {"source": "internal"}, {"source": "internal"}][int(rng.integers(0, 4))]
            if gp:
                params[k] = {"geometric_prior": gp}
    return params


SHAPES = [(5, 5), (5, 40), (7, 6), (12, 14), (19, 300), (60, 90), (200, 300), (3, 3)]


def cases(spec, ctx):
    work = spec["work"]
    if work == "table":
        words = _accepted(spec["L"])
        idx = 0
        for w in words:
            idx += 1
            if idx % spec["parts"] != spec["part"]:
                continue
            for d in range(spec["draws"]):
                yield {"work": "table", "kinds": w, "draw": d, "idx": idx}
    elif work == "step":
        for i in range(spec["n"]):
            yield {"work": "step", "i": i}
    elif work == "cli":
        for i in range(spec["n"]):
            yield {"work": "cli", "i": i}


def _meta(shape, multiband):
    key = (shape, multiband)
    if key not in _state:
        im = np.zeros(((3,) if multiband else ()) + tuple(shape), np.float32)
        l = gen.make_dataset(im, (-2, 2))
        r = gen.make_dataset(im, (-2, 2))
        _state[key] = (gen.metadata_dataset(l), gen.metadata_dataset(r))
    return _state[key]


def _check_margins(ctx, case, keys, pipe, shape, step=1, validation_compare=True):
    """check on a fresh machine, compare with the table; returns the observed to_dict()."""
    mb = pipes.needs_bands(keys)
    if mb:
        for k in keys:
            if pipes.kind_of(k) == "matching_cost":
                pipe[k]["band"] = "r"
    ml, mr = _meta(shape, mb)
    if case.get("draw") == 0 and case.get("idx", 1) % 4 == 0 and shape[0] * shape[1] <= 6000:
        # the check is made on the datasets themselves (what an API user holds), not on their metadata; three bands
        im3 = np.zeros((3,) + tuple(shape), np.float32)
        ml, mr = gen.make_dataset(im3, (-2, 2)), gen.make_dataset(im3, (-2, 2))
        if not mb:
            pipe = {k: (dict(v, band="r") if pipes.kind_of(k) == "matching_cost" else v) for k, v in pipe.items()}
        ctx.gate("checked_on_full_multiband_datasets")
    m = pipes.new_machine()
    pipe = strip_omitted(pipe)
    m.check_conf({"pipeline": copy.deepcopy(pipe)}, ml, mr)
    got = m.margins.to_dict()
    completed = documented({k: pipe[k] for k in keys})
    ctx.gate("optimisation_step_with_a_geometric_prior", int(any("geometric_prior" in pipe[k] for k in keys)))
    ctx.gate("margin_parameter_left_to_its_default", int(any(
        ("window_size" not in pipe[k] and pipes.kind_of(k) == "matching_cost") or
        (pipes.kind_of(k) == "filter" and not ({"filter_size", "sigma_space"} & set(pipe[k]))) for k in keys)))
    ctx.gate("bilateral_default_after_an_explicit_sigma_space", int(_state.get("explicit_sigma_seen", False) and any(
        pipe[k].get("filter_method") == "bilateral" and "sigma_space" not in pipe[k] for k in keys)))
    if any(pipe[k].get("filter_method") == "bilateral" and pipe[k].get("sigma_space") not in (None, 6.0) for k in keys):
        _state["explicit_sigma_seen"] = True
    exp = ref.expected(completed, shape, step)
    ctx.count("margin_tables_compared")
    if json.dumps(got) != json.dumps(exp):
        ctx.violation(
            "margins-differ-from-table",
            f"pipeline {pipe} on image {shape} step {step}: reported {got}, table says {exp}",
            case,
            situation="values" if list(got["cumulative margins"]) == list(exp["cumulative margins"])
            and list(got["non-cumulative margins"]) == list(exp["non-cumulative margins"]) else "keys",
        )
    g = got["global margins"]
    if any(v < 0 for v in g.values()):
        ctx.violation("negative-margin", f"pipeline {pipe}: global {g}", case)
    # situation classes (from the observed data)
    cum_sum = max(sum(v[s] for v in got["cumulative margins"].values()) for s in ("left",))
    non_max = max([v["left"] for v in got["non-cumulative margins"].values()] + [-1])
    ctx.gate("noncumulative_dominates", int(non_max > cum_sum))
    ctx.gate("cumulative_dominates", int(cum_sum > non_max >= 0))
    for k, p in completed.items():
        if p.get("filter_method") == "bilateral" and min(shape) < int(3 * p["sigma_space"] + 1):
            ctx.gate("bilateral_clamped_by_image")
    return got, m


def run_case(case, ctx):
    work = case["work"]
    if work == "table":
        rng = ctx.rng("table", case["idx"], case["draw"])
        kinds = case["kinds"]
        keys = pipes.keys_for(kinds, suffix_first=set(kinds) if case["draw"] == 1 else None,
                              style=["num", "kindname"][case["idx"] % 2])
        ctx.gate("suffix_naming_another_step_kind", int(case["draw"] == 1 and case["idx"] % 2 == 1))
        shape = SHAPES[int(rng.integers(0, len(SHAPES)))]
        params = draw_params(rng, keys, shape)
        pipe = pipes.instantiate(keys, params=params)
        got, _m = _check_margins(ctx, case, keys, pipe, shape)
        nontrivial = any(v > 0 for v in got["global margins"].values())
        ctx.case(["table", keys, params, shape], nontrivial=nontrivial)
        if ctx.evaluations % 97 == 1:
            ctx.sample({"pipeline": pipe, "image_shape": shape, "margins": got})
        # validation second round must not change anything
        if "disparity" in kinds and "validation" not in kinds:
            keys_v = keys + ["validation"]
            pipe_v = pipes.instantiate(keys_v, params=params)
            got_v, _ = _check_margins(ctx, case, keys_v, pipe_v, shape)
            ctx.gate("validation_second_round")
            if json.dumps(got_v) != json.dumps(got):
                ctx.violation(
                    "second-round-changes-margins",
                    f"pipeline {pipe}: {got} without validation, {got_v} with a validation step appended",
                    case,
                )
        # monotonicity over every legal one-step extension
        for k in pipes.KINDS:
            ext = kinds + [k]
            if not pipes.dfa_accepts(ext):
                continue
            keys_e = pipes.keys_for(ext)
            # keep the parameters of the common prefix: the keys of the prefix are unchanged by keys_for
            keys_p = pipes.keys_for(kinds)
            params_p = draw_params(ctx.rng("table", case["idx"], case["draw"], "p"), keys_p, shape)
            pipe_p = pipes.instantiate(keys_p, params=params_p)
            params_e = dict(params_p)
            params_e.update({kk: vv for kk, vv in draw_params(rng, keys_e, shape).items() if kk not in params_p})
            pipe_e = pipes.instantiate(keys_e, params=params_e)
            g0, _ = _check_margins(ctx, case, keys_p, pipe_p, shape)
            g1, _ = _check_margins(ctx, case, keys_e, pipe_e, shape)
            ctx.gate("extensions_compared")
            if any(g1["global margins"][s] < g0["global margins"][s] for s in g0["global margins"]):
                ctx.violation(
                    "margins-decrease-when-step-added",
                    f"{pipe_p} -> {g0['global margins']}, with {keys_e[-1]} appended -> {g1['global margins']}",
                    case,
                )
        return
    if work == "step":
        rng = ctx.rng("step", case["i"])
        step = int(rng.integers(1, 4))
        kinds = ["matching_cost"] + (["aggregation"] if rng.random() < 0.3 else []) + ["disparity"]
        kinds += [["filter", "refinement", "filter"][int(x)] for x in rng.integers(0, 3, int(rng.integers(0, 4)))]
        sfx = [None, set(kinds), {"matching_cost"}][case["i"] % 3]
        keys = pipes.keys_for(kinds, suffix_first=sfx, style=["num", "alpha", "dotted", "word", "kindname"][(case["i"] // 3) % 5])
        shape = SHAPES[int(rng.integers(0, len(SHAPES)))]
        params = draw_params(rng, keys, shape)
        params[keys[0]]["step"] = step
        ctx.gate("step_gt_1_with_a_suffixed_matching_cost_and_a_filter",
                 int(step > 1 and keys[0] != "matching_cost" and any(pipes.kind_of(k) == "filter" for k in keys)))
        pipe = pipes.instantiate(keys, params=params)
        got, m = _check_margins(ctx, case, keys, pipe, shape, step=step)
        ctx.case(["step", keys, params, shape])
        ctx.gate("step_gt_1", int(step > 1 and any(pipes.kind_of(k) == "filter" for k in keys)))
        if case["i"] < 2:
            ctx.sample({"pipeline": pipe, "image_shape": shape, "step": step, "margins": got})
        return
    if work == "cli":
        _cli(case, ctx)
        return
    raise ValueError(work)


def _cli(case, ctx):
    import pandora

    rng = ctx.rng("cli", case["i"])
    rows, cols = int(rng.integers(8, 20)), int(rng.integers(10, 24))
    l, r = gen.stereo_pair(rng, rows, cols, "random", max_shift=2)
    d = os.path.join(ctx.workdir, f"cli{case['i']}")
    rasters.write_tif(os.path.join(d, "left.tif"), l)
    rasters.write_tif(os.path.join(d, "right.tif"), r)
    kinds = ["matching_cost"] + (["aggregation"] if rng.random() < 0.4 else []) + ["disparity"]
    kinds += [["filter", "refinement", "filter", "validation"][int(x)] for x in rng.integers(0, 4, int(rng.integers(0, 4)))]
    kinds = [k for i, k in enumerate(kinds) if k != "validation" or "validation" not in kinds[:i]]
    keys = pipes.keys_for(kinds)
    params = draw_params(rng, keys, (rows, cols))
    for k in keys:
        if pipes.kind_of(k) == "matching_cost":
            if params[k]["window_size"] != OMIT:
                params[k]["window_size"] = min(params[k]["window_size"], 5)
                if params[k]["matching_cost_method"] == "census":
                    params[k]["window_size"] = 3
        if pipes.kind_of(k) == "filter" and params[k]["filter_method"] == "median_for_intervals":
            params[k] = {"filter_method": "median", **({"filter_size": params[k]["filter_size"]} if "filter_size" in params[k] else {})}
        if pipes.kind_of(k) == "filter" and "filter_size" in params[k]:
            # the CLI case executes the pipeline: keep the filter window inside the image (domain of C10)
            params[k]["filter_size"] = min(params[k]["filter_size"], 7)
    pipe = strip_omitted(pipes.instantiate(keys, params=params))
    user = {
        "input": {
            "left": {"img": os.path.join(d, "left.tif"), "disp": [-2, 2]},
            "right": {"img": os.path.join(d, "right.tif")},
        },
        "pipeline": pipe,
    }
    cfg_path = os.path.join(d, "user.json")
    with open(cfg_path, "w") as f:
        json.dump(user, f)
    out = os.path.join(d, "out")
    pandora.main(cfg_path, out, False)
    saved = json.load(open(os.path.join(out, "cfg", "config.json")))
    ctx.case(["cli", keys, params, (rows, cols)])
    ctx.gate("cli_saved_margins")
    exp = ref.expected(documented({k: pipe[k] for k in keys}), (rows, cols), 1)
    if "margins" not in saved:
        ctx.violation("saved-config-lacks-margins", f"cfg/config.json of {pipe} has keys {list(saved)}", case)
    elif json.dumps(saved["margins"]) != json.dumps(exp):
        ctx.violation(
            "saved-margins-differ",
            f"pipeline {pipe}: config.json margins {saved['margins']}, table {exp}",
            case,
        )
    if case["i"] < 1:
        ctx.sample({"cli_pipeline": pipe, "saved_margins": saved.get("margins")})
