"""C10 - filters change only valid pixels, to an average of their valid neighbours.

Reference model: per-pixel nan-median / Gaussian-weighted mean over the valid window, evaluated on
the datasets captured around every filter execution (direct calls and traced pipelines)."""
from __future__ import annotations

import itertools

import numpy as np
import xarray as xr

from pvmon import gen, pipes, trace

LEVEL = "exploration"
RULE = (
    "disparity maps with sizes from {1..9, 49-52, 99-102, 149-151, 201} in both axes (block boundaries of 50 and 100), "
    "filter_size {1,3,5,7,11}, sigma_space giving odd/even widths and widths larger than the image, invalid pixels "
    "anywhere (including whole windows), NaN / -9999 invalid_disparity, integer and fractional disparities, extra "
    "confidence bands; median_for_intervals on interval bands; plus the filter steps of traced pipelines. distinct = "
    "(method, shape, parameters, invalid layout); non-trivial = at least one pixel changed and one invalid pixel"
)
ASSUMPTIONS = [
    "bilateral window as documented: width min(rows, cols, int(3 sigma_space + 1)), anchor at width // 2; compared to 1e-5",
    "median_for_intervals: a bound that is NaN is treated like an invalid pixel of the median",
]
GATES = {
    "median_two_blocks_both_axes": 1, "bilateral_two_blocks_both_axes": 1, "window_with_only_the_centre_valid": 1,
    "even_bilateral_width": 1, "bilateral_object_called_directly_with_another_sigma": 3, "invalid_area_larger_than_100x100": 1, "image_smaller_than_nominal_width": 1, "median_for_intervals_runs": 2,
    "pipeline_filter_steps": 5, "pixels_judged": 100000, "image_smaller_than_median_window": 1, "regularisation_applied_on_pixels_already_flagged": 1,
}
INVALID = 0b1111000011
SIZES = [1, 2, 3, 5, 6, 7, 8, 9, 49, 50, 51, 52, 99, 100, 101, 102, 149, 150, 151, 201]


def plan(tier, seed):
    specs = []
    n = 6 if tier == "quick" else 14
    for i in range(n):
        specs.append({"name": f"synth-{i}", "work": "synth", "part": i, "parts": n, "n": 12 if tier == "quick" else 70,
                      "mode": "B" if i % 2 else "A", "timeout": 3000})
    n = 2 if tier == "quick" else 8
    for i in range(n):
        specs.append({"name": f"pipe-{i}", "work": "pipe", "part": i, "n": 20 if tier == "quick" else 130,
                      "mode": "B" if i % 2 else "A", "timeout": 3000})
    specs.append({"name": "directed", "work": "directed"})
    return specs


def setup(spec, ctx):
    pipes.register_plugins()


def cases(spec, ctx):
    if spec["work"] == "directed":
        yield {"work": "synth", "part": "d", "i": 0, "force": {"method": "median", "shape": [201, 203], "fs": 3}}
        yield {"work": "synth", "part": "d", "i": 1, "force": {"method": "bilateral", "shape": [101, 104], "ss": 1.0}}
        yield {"work": "synth", "part": "d", "i": 2, "force": {"method": "bilateral", "shape": [9, 30], "ss": 1.4}}   # width 5
        yield {"work": "synth", "part": "d", "i": 20, "force": {"method": "bilateral", "shape": [125, 240], "ss": 2.0, "layout": "large-area", "area": [112, 115]}}
        # maps exactly as high / wide as the filter window (the middle row or column is still filtered)
        yield {"work": "synth", "part": "d", "i": 30, "force": {"method": "median_for_intervals", "shape": [5, 30], "fs": 5, "noreg": True}}
        yield {"work": "synth", "part": "d", "i": 31, "force": {"method": "median_for_intervals", "shape": [40, 3], "fs": 3, "noreg": True}}
        yield {"work": "synth", "part": "d", "i": 32, "force": {"method": "median", "shape": [7, 33], "fs": 7}}
        yield {"work": "synth", "part": "d", "i": 33, "force": {"method": "bilateral", "shape": [7, 33], "ss": 2.0}}
        yield {"work": "synth", "part": "d", "i": 22, "force": {"method": "median_for_intervals", "shape": [104, 33], "fs": 3}}
        yield {"work": "synth", "part": "d", "i": 23, "force": {"method": "median_for_intervals", "shape": [31, 207], "fs": 5}}
        yield {"work": "synth", "part": "d", "i": 21, "force": {"method": "median", "shape": [215, 130], "fs": 5, "layout": "large-area", "area": [204, 101]}}
        yield {"work": "synth", "part": "d", "i": 3, "force": {"method": "bilateral", "shape": [12, 9], "ss": 1.0}}   # even width 4
        yield {"work": "synth", "part": "d", "i": 4, "force": {"method": "bilateral", "shape": [6, 7], "ss": 6.0}}    # width > image
        yield {"work": "synth", "part": "d", "i": 5, "force": {"method": "median", "shape": [2, 7], "fs": 3}}
        yield {"work": "synth", "part": "d", "i": 6, "force": {"method": "median", "shape": [7, 4], "fs": 5}}
        yield {"work": "synth", "part": "d", "i": 7, "force": {"method": "median", "shape": [9, 9], "fs": 3, "lonely": True}}
        for j in range(3):
            yield {"work": "synth", "part": "d", "i": 10 + j, "force": {"method": "median_for_intervals", "shape": [20 + j, 31], "fs": 3}}
        return
    for i in range(spec["n"]):
        yield {"work": spec["work"], "part": spec["part"], "i": i}


def ref_median(data, fs):
    """data: float32 with NaN for pixels that do not take part. Returns the filtered copy."""
    H, W = data.shape
    r = fs // 2
    out = data.copy()
    for y in range(r, H - r):
        for x in range(r, W - r):
            if np.isfinite(data[y, x]):
                win = data[y - r:y + r + 1, x - r:x + r + 1]
                out[y, x] = np.nanmedian(win)
    return out


def ref_bilateral(data, ss, sc):
    H, W = data.shape
    win = min(H, W, int(3 * ss + 1))
    off = win // 2
    out = data.astype(np.float64).copy()
    yy, xx = np.mgrid[0:win, 0:win]
    gs = np.exp(-0.5 * (((yy - off) ** 2 + (xx - off) ** 2) / ss ** 2))
    d64 = data.astype(np.float64)
    lo = np.full((H, W), np.nan)
    hi = np.full((H, W), np.nan)
    for y in range(off, H - win + off + 1):
        for x in range(off, W - win + off + 1):
            if not np.isfinite(d64[y, x]):
                continue
            w = d64[y - off:y - off + win, x - off:x - off + win]
            g = gs * np.exp(-0.5 * ((w - d64[y, x]) / sc) ** 2)
            ok = np.isfinite(w)
            out[y, x] = np.sum(g[ok] * w[ok]) / np.sum(g[ok])
            lo[y, x], hi[y, x] = w[ok].min(), w[ok].max()
    return out, lo, hi, win, off


def judge(ctx, case, desc, method, params, d0, m0, d1, m1, conf0=None, conf1=None, names=None):
    H, W = d0.shape
    ctx.gate("pixels_judged", H * W)
    m0i, m1i = m0.astype(np.int64), m1.astype(np.int64)
    allowed = 2048 if (method == "median_for_intervals" and params.get("regularization")) else 0
    if (((m0i ^ m1i) & ~allowed) != 0).any():
        i = np.argwhere(((m0i ^ m1i) & ~allowed) != 0)[0]
        ctx.violation("filter-changed-validity-mask", f"{method}: pixel {i.tolist()} flag {int(m0i[tuple(i)])}->{int(m1i[tuple(i)])}", case, desc=desc)
    invalid = (m0i & INVALID) != 0
    same = (d0 == d1) | (np.isnan(d0) & np.isnan(d1))
    if (invalid & ~same).any():
        i = np.argwhere(invalid & ~same)[0]
        ctx.violation("invalid-pixel-disparity-changed", f"{method}: pixel {i.tolist()} flag {int(m0i[tuple(i)])}: {d0[tuple(i)]!r}->{d1[tuple(i)]!r}",
                      case, desc=desc)
    masked = d0.copy()
    masked[invalid] = np.nan
    if method == "median_for_intervals":
        if not same.all():
            ctx.violation("median-for-intervals-changed-disparity", f"diffs {gen.first_diffs(d0, d1, 3)}", case, desc=desc)
        if conf0 is not None and not params.get("regularization"):
            sfx = params.get("interval_indicator", "")
            for base in ("confidence_from_interval_bounds_inf", "confidence_from_interval_bounds_sup"):
                nm = base if sfx == "" else f"{base}.{sfx}"
                k = list(names).index(nm)
                exp = ref_median(conf0[:, :, k], params["filter_size"])
                if not gen.same(conf1[:, :, k], exp):
                    ctx.violation("interval-band-not-the-median", f"band {nm}: {gen.first_diffs(exp, conf1[:, :, k], 3)} (a=reference)", case, desc=desc)
            others = [j for j, n_ in enumerate(names) if "interval_bounds" not in n_ or (sfx != "" and not n_.endswith("." + sfx)) or (sfx == "" and "." in n_)]
            for j in others:
                if not gen.same(conf0[:, :, j], conf1[:, :, j]):
                    ctx.violation("other-band-changed-by-filter", f"band {names[j]}", case, desc=desc)
        ctx.gate("median_for_intervals_runs")
        return
    if conf0 is not None and not gen.same(conf0, conf1):
        ctx.violation("other-band-changed-by-filter", f"{method}: confidence bands changed", case, desc=desc)
    if method == "median":
        fs = params["filter_size"]
        exp = ref_median(masked, fs)
        exp[invalid] = d0[invalid]
        bad = ~((exp == d1) | (np.isnan(exp) & np.isnan(d1)))
        if bad.any():
            i = np.argwhere(bad)[0]
            y, x = int(i[0]), int(i[1])
            r = fs // 2
            edge = y < r or x < r or y >= H - r or x >= W - r
            ctx.violation("median-value",
                          f"median {fs}: {int(bad.sum())} pixels differ; pixel ({y},{x}) {d0[y, x]!r} -> {d1[y, x]!r}, reference {exp[y, x]!r}",
                          case, situation="edge-pixel-changed" if edge else f"block({y // 100},{x // 100})", desc=desc)
        ctx.gate("median_two_blocks_both_axes", int(H - fs + 1 > 100 and W - fs + 1 > 100))
        r = fs // 2
        if fs > 1 and H > 2 * r and W > 2 * r:
            fin = np.isfinite(masked)
            cnt = sum(np.roll(np.roll(fin, dy, 0), dx, 1) for dy in range(-r, r + 1) for dx in range(-r, r + 1))
            inner = np.zeros((H, W), bool)
            inner[r:H - r, r:W - r] = True
            ctx.gate("window_with_only_the_centre_valid", int((fin & inner & (cnt == 1)).any()))
        ctx.gate("image_smaller_than_median_window", int(H < fs or W < fs))
    else:
        ss, sc = params["sigma_space"], params["sigma_color"]
        exp, lo, hi, win, off = ref_bilateral(masked, ss, sc)
        expf = exp.copy()
        expf[invalid] = d0[invalid]
        diff = np.abs(d1.astype(np.float64) - expf)
        bad = ~((diff <= 1e-5 * np.maximum(1.0, np.abs(expf))) | (np.isnan(expf) & np.isnan(d1)))
        if bad.any():
            i = np.argwhere(bad)[0]
            y, x = int(i[0]), int(i[1])
            ctx.violation("bilateral-value",
                          f"bilateral ss={ss} sc={sc} width {win}: {int(bad.sum())} pixels differ; pixel ({y},{x}) {d0[y, x]!r} -> {d1[y, x]!r}, "
                          f"reference {expf[y, x]!r}", case, situation=f"block({y // 50},{x // 50})" if np.isfinite(lo[y, x]) else "edge-pixel-changed", desc=desc)
        inb = np.isfinite(lo)
        out_of = inb & ~invalid & ((d1 < lo - 1e-4) | (d1 > hi + 1e-4))
        if out_of.any():
            i = np.argwhere(out_of)[0]
            ctx.violation("bilateral-outside-window-range", f"pixel {i.tolist()} -> {d1[tuple(i)]!r} outside [{lo[tuple(i)]},{hi[tuple(i)]}]", case, desc=desc)
        ctx.gate("bilateral_two_blocks_both_axes", int(H - win + 1 > 50 and W - win + 1 > 50))
        ctx.gate("even_bilateral_width", int(win % 2 == 0))
        ctx.gate("image_smaller_than_nominal_width", int(min(H, W) < int(3 * ss + 1)))


def run_case(case, ctx):
    from pandora import filter as flt

    if case["work"] == "pipe":
        return _pipe(case, ctx)
    rng = ctx.rng("synth", case["part"], case["i"])
    f = case.get("force", {})
    method = f.get("method") or ["median", "bilateral", "median", "bilateral", "median_for_intervals"][int(rng.integers(0, 5))]
    if "shape" in f:
        H, W = f["shape"]
    else:
        H, W = int(rng.choice(SIZES)), int(rng.choice(SIZES))
        if max(H, W) > 110 and min(H, W) > 110 and rng.random() < 0.7:
            W = int(rng.choice([5, 9, 51, 101]))
    step = float(rng.choice([1, 0.5, 0.25, 0.1]))
    d = (rng.integers(-40, 41, (H, W)) * step).astype(np.float32)
    lay = f.get("layout") or ["none", "sparse", "dense", "blocks", "almost-all", "large-area"][int(rng.integers(0, 6))]
    m = np.zeros((H, W), np.uint16)
    bad_vals = np.array([1, 2, 64, 128, 256, 512, 66, 258], np.uint16)
    info_vals = np.array([0, 0, 0, 4, 8, 16, 32, 2048, 12], np.uint16)
    m[:] = rng.choice(info_vals, (H, W))
    if lay == "sparse":
        sel = rng.random((H, W)) < 0.08
        m[sel] = rng.choice(bad_vals, int(sel.sum()))
    elif lay == "dense":
        sel = rng.random((H, W)) < 0.5
        m[sel] = rng.choice(bad_vals, int(sel.sum()))
    elif lay == "blocks":
        for _ in range(4):
            y, x = int(rng.integers(0, H)), int(rng.integers(0, W))
            m[y:y + int(rng.integers(1, 9)), x:x + int(rng.integers(1, 9))] = int(rng.choice(bad_vals))
    elif lay == "almost-all":
        sel = rng.random((H, W)) < 0.93
        m[sel] = rng.choice(bad_vals, int(sel.sum()))
    elif lay == "large-area":
        # one large invalid area (no-data corner of a tile, masked water / cloud), a few invalid pixels elsewhere
        hh, ww = int(rng.integers(max(1, H // 3), max(2, H * 3 // 4 + 1))), int(rng.integers(max(1, W // 3), max(2, W * 3 // 4 + 1)))
        if f.get("area"):
            hh, ww = f["area"]
        y = [0, H - hh, int(rng.integers(0, H - hh + 1))][int(rng.integers(0, 3))]
        x = [0, W - ww, int(rng.integers(0, W - ww + 1))][int(rng.integers(0, 3))] if not f.get("area") else 0
        m[y:y + hh, x:x + ww] = rng.choice(np.array([1, 2, 64], np.uint16), (hh, ww))
        sel = rng.random((H, W)) < 0.02
        m[sel] = rng.choice(bad_vals, int(sel.sum()))
        ctx.gate("invalid_area_larger_than_100x100", int(hh >= 100 and ww >= 100 and W - ww > 60))
    if f.get("lonely"):
        m[:] = 2
        m[4, 4] = 0
        m[1, 1] = 0
    inv = [-9999.0, np.nan][int(rng.integers(0, 2))]
    d[(m & INVALID) != 0] = inv
    ds = xr.Dataset({"disparity_map": (["row", "col"], d.copy()), "validity_mask": (["row", "col"], m.copy())},
                    coords={"row": np.arange(H), "col": np.arange(W)})
    ds.attrs = {"offset_row_col": 0}
    names = ["confidence_from_std_intensity", "confidence_from_interval_bounds_inf", "confidence_from_interval_bounds_sup",
             "confidence_from_ambiguity", "confidence_from_interval_bounds_inf.b", "confidence_from_interval_bounds_sup.b"]
    conf = None
    if method == "median_for_intervals" or rng.random() < 0.4:
        conf = (rng.integers(-20, 21, (H, W, len(names))) * 0.5).astype(np.float32)
        conf[:, :, 1] = d - np.abs(conf[:, :, 1])
        conf[:, :, 2] = d + np.abs(conf[:, :, 2])
        conf[(m & INVALID) != 0, 1:3] = np.nan
        conf[:, :, 3] = rng.random((H, W))
        ds.coords["indicator"] = names
        ds["confidence_measure"] = xr.DataArray(conf.copy(), dims=["row", "col", "indicator"])
    if method == "median":
        fs = f.get("fs") or int(rng.choice([1, 3, 5, 7, 11]))
        params = {"filter_method": "median", "filter_size": fs}
    elif method == "bilateral":
        ss = f.get("ss") or float(rng.choice([0.4, 0.7, 1.0, 1.4, 2.0, 2.4, 6.0]))
        params = {"filter_method": "bilateral", "sigma_space": ss, "sigma_color": float(rng.choice([0.5, 2.0, 10.0]))}
    else:
        fs = f.get("fs") or int(rng.choice([1, 3, 5]))
        params = {"filter_method": "median_for_intervals", "filter_size": fs,
                  "interval_indicator": ["", "b"][int(rng.integers(0, 2))]}
        if (rng.random() < 0.6 or f.get("method") == "median_for_intervals") and not f.get("noreg"):
            params.update({"regularization": True, "ambiguity_indicator": "", "ambiguity_threshold": float(rng.choice([0.3, 0.6, 0.9])),
                           "ambiguity_kernel_size": int(rng.choice([1, 3, 5])), "vertical_depth": int(rng.choice([0, 1, 2])),
                           "quantile_regularization": float(rng.choice([0.8, 1.0]))})
        if H < fs or W < fs:
            ctx.ood()
            return
    desc = {"method": method, "params": params, "shape": [H, W], "layout": lay, "step": step, "invalid_disparity": repr(inv)}
    filt = flt.AbstractFilter(cfg=dict(params), image_shape=(H, W), step=1)
    filt.filter_disparity(ds)
    judge(ctx, case, desc, method, filt.cfg, d, m, ds["disparity_map"].data, ds["validity_mask"].data, conf,
          ds["confidence_measure"].data if conf is not None else None, names)
    if method == "bilateral" and H * W <= 3000 and hasattr(filt, "filter_bilateral"):
        # step-by-step use of the API: the SAME filter object is then called directly with another sigma_space that gives the
        # same window width (the public filter_bilateral takes the sigmas as arguments)
        ss0, sc0 = filt.cfg["sigma_space"], filt.cfg["sigma_color"]
        width = min(H, W, int(3 * ss0 + 1))
        ss2 = (width - 1 + 0.4) / 3.0 if int(3 * ((width - 1 + 0.4) / 3.0) + 1) == int(3 * ss0 + 1) and abs((width - 1 + 0.4) / 3.0 - ss0) > 1e-3 else ss0 * 1.0001
        masked_in = d.astype(np.float32).copy()
        masked_in[(m & INVALID) != 0] = np.nan
        got2 = filt.filter_bilateral(masked_in.copy(), ss2, sc0)
        exp2, _, _, win2, _ = ref_bilateral(masked_in, ss2, sc0)
        ctx.gate("bilateral_object_called_directly_with_another_sigma")
        fin2 = np.isfinite(exp2)
        bad2 = fin2 & ~(np.abs(np.asarray(got2, np.float64) - exp2) <= 1e-5 * np.maximum(1.0, np.abs(exp2)))
        if bad2.any():
            i = np.argwhere(bad2)[0]
            ctx.violation("bilateral-value", f"direct call filter_bilateral(sigma_space={ss2}) on the object configured with {ss0} (width {win2}): "
                          f"{int(bad2.sum())} pixels differ; pixel {i.tolist()} {got2[tuple(i)]!r}, reference {exp2[tuple(i)]!r}", case,
                          situation="direct-call-with-another-sigma", desc=desc)
    if method == "median_for_intervals" and params.get("regularization"):
        # bit 11 is a flag: pixels that already carry it (input mask, or a previous regularising step) keep it,
        # and no other bit may appear when the step is applied again
        m1 = ds["validity_mask"].data.astype(np.int64).copy()
        had = (m.astype(np.int64) & 2048) != 0
        if (had & ((m1 & 2048) == 0)).any() or (m1 >= 4096).any():
            i = np.argwhere((had & ((m1 & 2048) == 0)) | (m1 >= 4096))[0]
            ctx.violation("regularisation-flag-not-a-bit", f"pixel {i.tolist()} flag {int(m[tuple(i)])} -> {int(m1[tuple(i)])}", case,
                          situation="bit11-already-set", desc=desc)
        c1 = ds["confidence_measure"].data.copy()
        filt.filter_disparity(ds)
        m2 = ds["validity_mask"].data.astype(np.int64)
        judge(ctx, case, dict(desc, second_application=True), method, filt.cfg, ds["disparity_map"].data.copy() * 0 + d, m1.astype(np.uint16),
              ds["disparity_map"].data, ds["validity_mask"].data, c1, ds["confidence_measure"].data, names)
        if (((m1 & 2048) != 0) & ((m2 & 2048) == 0)).any() or (m2 >= 4096).any():
            i = np.argwhere((((m1 & 2048) != 0) & ((m2 & 2048) == 0)) | (m2 >= 4096))[0]
            ctx.violation("regularisation-flag-not-a-bit", f"second application: pixel {i.tolist()} flag {int(m1[tuple(i)])} -> {int(m2[tuple(i)])}",
                          case, situation="applied-twice", desc=desc)
        ctx.gate("regularisation_applied_on_pixels_already_flagged", int(bool(((m1 & 2048) != 0).any())))
    changed = not gen.same(d, ds["disparity_map"].data)
    ctx.case([method, params, [H, W], lay, step], nontrivial=bool(changed and ((m & INVALID) != 0).any()) or method == "median_for_intervals")
    if ctx.evaluations <= 2:
        ctx.sample({"case": desc, "pixels_changed": int((~((d == ds['disparity_map'].data) | np.isnan(d))).sum())})


def _pipe(case, ctx):
    import pandora

    rng = ctx.rng("pipe", case["part"], case["i"])
    rows, cols = int(rng.integers(7, 26)), int(rng.integers(8, 30))
    if case["i"] % 8 == 0:
        rows, cols = int(rng.integers(101, 112)), int(rng.integers(51, 60))
    keys, params, info = pipes.random_pipeline(rng, rows, cols, max_post=4, post=("filter", "filter", "refinement", "validation"),
                                               allow_cbca=False)
    if not any(pipes.kind_of(k) == "filter" for k in keys):
        keys = keys + pipes.keys_for([pipes.kind_of(k) for k in keys] + ["filter"])[-1:]
        params[keys[-1]] = {"filter_method": "median", "filter_size": 3}
    tex = gen.TEXTURES[int(rng.integers(0, 5))]
    l, r = gen.stereo_pair(rng, rows, cols, tex, max_shift=3)
    lm = gen.mask(rng, rows, cols, gen.MASK_KINDS[int(rng.integers(0, 9))]) if rng.random() < 0.5 else None
    a, b = gen.interval(rng, cols, ["neg", "pos", "straddle", "straddle"][int(rng.integers(0, 4))])
    left = gen.make_dataset(l, (a, b), lm)
    right = gen.make_dataset(r, None, None)
    pipe = pipes.build_pipe(keys, params)
    m = pipes.new_machine()
    pipes.check(m, pipe, left, right)
    cfg = pipes.checked_cfg(m, pipe)
    desc = {"pipeline": keys, "params": {k: params[k] for k in keys}, "shape": [rows, cols], "disp": [a, b]}
    st = {}

    def before(ev, mm):
        if ev["kind"] == "filter":
            st["b"] = trace.snapshot(mm, ("left_disparity", "right_disparity"))

    def after(ev, mm):
        if ev["kind"] != "filter":
            return
        p = cfg["pipeline"][ev["step_key"]]
        for side in ("left_disparity", "right_disparity"):
            b_, a_ = st["b"][side], getattr(mm, side)
            if b_ is None or "disparity_map" not in b_:
                continue
            c0 = b_["confidence_measure"].data if "confidence_measure" in b_ else None
            c1 = a_["confidence_measure"].data if "confidence_measure" in a_ else None
            nm = list(b_.coords["indicator"].data) if "confidence_measure" in b_ else None
            judge(ctx, case, dict(desc, step=ev["step_key"], side=side), p["filter_method"], p, b_["disparity_map"].data,
                  b_["validity_mask"].data, a_["disparity_map"].data, a_["validity_mask"].data, c0, c1, nm)
        ctx.gate("pipeline_filter_steps")

    trace.Tracer(m, on_before=before, on_after=after)
    pandora.run(m, left, right, cfg)
    ctx.case(["pipe", keys, desc["params"], [rows, cols]], nontrivial=True)
