"""C04 - validity flags, NaN costs and invalid disparities tell one coherent story.

Invariants evaluated at the step hooks of traced pipeline runs: (a) documented causes of bits
0/1/2/6/7 and the three-way equivalence before validation, (b) bit ownership of every later step
(before ^ after must stay inside the bits the step owns), no bit >= 4096 ever."""
from __future__ import annotations

import numpy as np

from pvmon import gen, pipes, trace
from pvmon.refs import flags as ref

LEVEL = "exploration"
RULE = (
    "masked stereo pairs (9 mask layouts on either side incl. exotic mask values, windows 1-7, scalar intervals "
    "and grids, NaN / far-away invalid_disparity) through matching_cost -> disparity with the cause oracle; random "
    "legal pipelines (cbca, confidence steps, repeated refinement / filter / validation with both fillings) with "
    "the bit-ownership monitor after every step. distinct = (pipeline keys, parameters, mask kinds, interval, "
    "shape); non-trivial = at least one flagged and one unflagged non-border pixel"
)
ASSUMPTIONS = [
    "invalid_disparity is NaN or far outside the searched interval (the statement's premise for the 'iff')",
    "bits owned: refinement {3}; filter {} (median_for_intervals with regularisation {11}); validation {8,9} and, "
    "with filling, {4,5}; every other step {}",
]
GATES = {
    "bit0_set_and_clear": 1, "bit1_set_and_clear": 1, "bit2_set_and_clear": 1, "bit6_set_and_clear": 1,
    "bit7_set_and_clear": 1, "bits_6_and_7_together": 1, "step_kind_repeated_twice": 1, "step_kind_repeated_3x": 1,
    "steps_monitored": 100, "run_after_an_in_place_edit_of_the_masks": 2, "validation_step_on_pixels_already_filled": 2, "cost_volume_flags_watched_during_later_steps": 50, "cause_oracle_pixels": 10000, "pixels_computable_at_sub_pixel_samples_only": 5,
}
REFINE, FILL_OCC, FILL_MIS, OCC, MIS, B11 = 8, 16, 32, 256, 512, 2048


def plan(tier, seed):
    specs = []
    n = 4 if tier == "quick" else 12
    for i in range(n):
        specs.append({"name": f"cause-{i}", "work": "cause", "part": i, "n": 40 if tier == "quick" else 350,
                      "mode": "B" if i % 4 == 3 else "A", "timeout": 3000})
    n = 4 if tier == "quick" else 12
    for i in range(n):
        specs.append({"name": f"own-{i}", "work": "own", "part": i, "n": 30 if tier == "quick" else 220,
                      "mode": "B" if i % 2 else "A", "timeout": 3000})
    specs.append({"name": "directed", "work": "directed"})
    return specs


def setup(spec, ctx):
    pipes.register_plugins()


def cases(spec, ctx):
    if spec["work"] == "directed":
        yield {"work": "own", "directed": "refinement-x3"}
        yield {"work": "own", "directed": "validation-x2-mc-cnn"}
        yield {"work": "own", "directed": "validation-x2-sgm"}
        yield {"work": "own", "directed": "filter-x3"}
        yield {"work": "cause", "directed": "b6b7"}
        return
    for i in range(spec["n"]):
        yield {"work": spec["work"], "part": spec["part"], "i": i}


def _inputs(rng, directed=None, need_right_disp=False, small=False):
    w = int(rng.choice([1, 3, 5, 7]))
    rows, cols = int(rng.integers(max(w, 5), 26)), int(rng.integers(max(w, 6), 34))
    tex = gen.TEXTURES[int(rng.integers(0, 5))]
    l, r = gen.stereo_pair(rng, rows, cols, tex, max_shift=3)
    kinds = gen.MASK_KINDS
    lmk = kinds[int(rng.integers(0, len(kinds)))] if rng.random() < 0.7 else "none"
    rmk = kinds[int(rng.integers(0, len(kinds)))] if rng.random() < 0.7 else "none"
    lm, rm = gen.mask(rng, rows, cols, lmk), gen.mask(rng, rows, cols, rmk)
    if directed == "b6b7":
        lm = np.zeros((rows, cols), np.int16)
        rm = np.zeros((rows, cols), np.int16)
        lm[rows // 2, :] = 2
        rm[rows // 2, :] = 3
        lmk = rmk = "directed-b6b7"
    ik = ["neg", "pos", "straddle", "point", "straddle", "grid"][int(rng.integers(0, 6))]
    if directed == "float-grid":
        ik = "grid"
    if ik == "grid":
        lo, hi = -int(rng.integers(1, 4)), int(rng.integers(0, 4))
        gk = ["random", "band", "pointvar", "float"][int(rng.integers(0, 4))]
        if directed == "float-grid":
            gk = "float"
        disp = gen.grids(rng, rows, cols, lo, hi, gk)
        rdisp = gen.grids(rng, rows, cols, -hi, -lo, gk)
    else:
        disp = gen.interval(rng, cols, ik)
        rdisp = None
    # coordinates as a ROI read carries them (first row / column not 0) in a third of the cases
    row0, col0 = (0, 0) if rng.random() < 0.65 else (int(rng.integers(1, 40)), int(rng.integers(1, 60)))
    left = gen.make_dataset(l, disp, lm, row0=row0, col0=col0)
    right = gen.make_dataset(r, rdisp, rm, row0=row0, col0=col0)
    desc = {"shape": [rows, cols], "texture": tex, "left_mask": lmk, "right_mask": rmk, "interval": ik, "origin": [row0, col0],
            "disp": [int(np.min(disp[0])), int(np.max(disp[1]))]}
    return left, right, w, desc


def check_no_high_bits(ctx, case, mask, where, desc):
    m = np.asarray(mask).astype(np.int64)
    if (m >= 4096).any() or (m < 0).any():
        i = np.argwhere((m >= 4096) | (m < 0))[0]
        ctx.violation("undocumented-bit", f"{where}: flag {int(m[tuple(i)])} at {i.tolist()}", case, situation=where.split(':')[0], desc=desc)
        return False
    return True


def coherence(ctx, case, cv, disp_ds, inv, desc, where):
    """Before validation: invalid flag <=> all costs NaN <=> disparity == invalid_disparity; border == bit 0 only."""
    mask = disp_ds["validity_mask"].data.astype(np.int64)
    allnan = np.isnan(cv["cost_volume"].data).all(axis=2)
    flagged = (mask & ref.INVALID_BITS) != 0
    d = disp_ds["disparity_map"].data
    is_inv = np.isnan(d) if np.isnan(inv) else (d == np.float32(inv))
    off = int(cv.attrs["offset_row_col"])
    border = np.zeros(mask.shape, bool)
    if off:
        border[:off] = border[-off:] = True
        border[:, :off] = border[:, -off:] = True
    if border.any() and (mask[border] != 1).any():
        i = np.argwhere(border & (mask != 1))[0]
        ctx.violation("border-pixel-not-bit0-only", f"{where}: border pixel {i.tolist()} has flag {int(mask[tuple(i)])}", case, desc=desc)
    a = flagged != allnan
    if a.any():
        i = np.argwhere(a)[0]
        ctx.violation("invalid-flag-vs-nan-costs",
                      f"{where}: pixel {i.tolist()} flag {int(mask[tuple(i)])} but costs "
                      f"{'all NaN' if allnan[tuple(i)] else 'computable'}", case,
                      situation="flagged-but-computable" if flagged[tuple(i)] else "nan-but-unflagged", desc=desc)
    b = allnan != is_inv
    if b.any():
        i = np.argwhere(b)[0]
        ctx.violation("nan-costs-vs-invalid-disparity",
                      f"{where}: pixel {i.tolist()} costs {'all NaN' if allnan[tuple(i)] else 'computable'} but disparity "
                      f"{d[tuple(i)]!r} (invalid_disparity={inv})", case, desc=desc)


def run_case(case, ctx):
    if case["work"] == "cause":
        _cause(case, ctx)
    else:
        _own(case, ctx)


def _cause(case, ctx):
    import pandora

    rng = ctx.rng("cause", case.get("part"), case.get("i"), case.get("directed"))
    directed = case.get("directed") or ("float-grid" if case.get("i") == 0 else None)
    left, right, w, desc = _inputs(rng, directed)
    rows, cols = desc["shape"]
    method = ["sad", "census", "zncc", "ssd"][int(rng.integers(0, 4))]
    if method == "census":
        w = 3 if w not in (3, 5) else w
    subpix = int(rng.choice([1, 2, 4]))
    if directed == "float-grid":
        subpix = [2, 4][int(case.get("part") or 0) % 2]
    inv = [-9999, np.nan, 1e6][int(rng.integers(0, 3))]
    validation = rng.random() < 0.4
    keys = ["matching_cost", "disparity"] + (["validation"] if validation else [])
    pipe = pipes.instantiate(keys, params={"matching_cost": {"matching_cost_method": method, "window_size": w, "subpix": subpix},
                                           "disparity": {"invalid_disparity": inv}})
    desc.update({"method": method, "window": w, "subpix": subpix, "invalid_disparity": repr(inv), "validation": validation})
    m = pipes.new_machine()
    pipes.check(m, pipe, left, right)
    cfg = pipes.checked_cfg(m, pipe)
    snaps = {}

    def after(ev, mm):
        if ev["kind"] == "matching_cost" and ev["phase"] == "after":
            snaps["cv"] = trace.snapshot(mm, ("left_cv", "right_cv"))
        if ev["kind"] == "disparity":
            snaps["disp"] = trace.snapshot(mm, ("left_disparity", "right_disparity"))

    if case.get("i") is not None and case["i"] % 4 == 1 and "msk" in left and "msk" in right:
        # history: the same dataset objects have already been through a run, then their masks were edited IN PLACE (what a
        # tiling driver that refills its buffers does); the judged run is the second one
        m_first = pipes.new_machine()
        pipes.check(m_first, pipe, left, right)
        pandora.run(m_first, left, right, pipes.checked_cfg(m_first, pipe))
        for ds_ in (left, right):
            mk = ds_["msk"].data
            y0, x0 = int(rng.integers(0, rows)), int(rng.integers(0, cols))
            mk[y0:y0 + 3, x0:x0 + 4] = 1
            mk[(y0 + 5) % rows, :] = np.where(mk[(y0 + 5) % rows, :] == 1, 0, mk[(y0 + 5) % rows, :])
        desc["history"] = "second run on the same dataset objects after an in-place edit of their masks"
        ctx.gate("run_after_an_in_place_edit_of_the_masks")
    trace.Tracer(m, on_after=after)
    lc, rc = gen.deep_copy_ds(left), gen.deep_copy_ds(right)
    pandora.run(m, left, right, cfg)
    sides = [("left", "left_cv", "left_disparity", lc, rc)]
    if validation:
        sides.append(("right", "right_cv", "right_disparity", rc, lc))
    some = False
    for side, cvn, dn, a_img, b_img in sides:
        cv = snaps["cv"][cvn]
        dd = snaps["disp"][dn]
        mask = cv["validity_mask"].data.astype(np.int64)
        if not check_no_high_bits(ctx, case, mask, f"matching_cost:{side}", desc):
            continue
        gmin, gmax = int(cv.coords["disp"].data[0]), int(cv.coords["disp"].data[-1])
        amsk = a_img["msk"].data if "msk" in a_img else None
        bmsk = b_img["msk"].data if "msk" in b_img else None
        exp = ref.expected_causes(rows, cols, w, gmin, gmax, amsk, bmsk)
        inner = ~exp["border"]
        ctx.gate("cause_oracle_pixels", int(inner.sum()))
        allnan = np.isnan(cv["cost_volume"].data).all(axis=2)
        if side == "left" and subpix > 1:
            ctx.gate("pixels_computable_at_sub_pixel_samples_only",
                     int((np.isnan(cv["cost_volume"].data[:, :, ::subpix]).all(axis=2) & ~allnan & inner).sum()))
        for bit, name, expmap in ((1, "b0", exp["b0"]), (4, "b2", exp["b2"]), (64, "b6", exp["b6"]), (128, "b7", exp["b7"]),
                                  (2, "b1", allnan)):
            got = (mask & bit) != 0
            bad = inner & (got != expmap)
            if bad.any():
                i = np.argwhere(bad)[0]
                ctx.violation(
                    "bit-cause",
                    f"{side}: bit {bit} at pixel {i.tolist()} is {'set' if got[tuple(i)] else 'clear'} but its documented "
                    f"cause {'holds' if expmap[tuple(i)] else 'does not hold'} (flag {int(mask[tuple(i)])}, interval "
                    f"[{gmin},{gmax}], window {w})", case, situation=f"bit{bit}:{'spurious' if got[tuple(i)] else 'missing'}", desc=desc)
            if side == "left":
                ctx.gate(f"bit{ {1: 0, 2: 1, 4: 2, 64: 6, 128: 7}[bit]}_set_and_clear", int(bool((got & inner).any()) and bool((~got & inner).any())))
        if side == "left":
            ctx.gate("bits_6_and_7_together", int(bool((((mask & 64) != 0) & ((mask & 128) != 0) & inner).any())))
            some = bool(((mask != 0) & inner).any() and ((mask == 0) & inner).any())
        if not gen.same(dd["validity_mask"].data, cv["validity_mask"].data):
            ctx.violation("flags-not-carried-over", f"{side}: disparity dataset flags differ from the cost volume's", case, desc=desc)
        coherence(ctx, case, cv, dd, inv, desc, f"disparity:{side}")
    ctx.case([desc[k] for k in sorted(desc)], nontrivial=some)
    if ctx.evaluations <= 2:
        ctx.sample({"case": desc, "flag_values_seen": sorted(set(int(v) for v in np.unique(snaps["cv"]["left_cv"]["validity_mask"].data)))})


def owned_bits(kind, params):
    if kind == "refinement":
        return REFINE
    if kind == "filter":
        if params.get("filter_method") == "median_for_intervals" and params.get("regularization"):
            return B11
        return 0
    if kind == "validation":
        own = OCC | MIS
        if params.get("interpolated_disparity"):
            own |= FILL_OCC | FILL_MIS
        return own
    return 0


def _own(case, ctx):
    import pandora

    rng = ctx.rng("own", case.get("part"), case.get("i"), case.get("directed"))
    left, right, w, desc = _inputs(rng)
    rows, cols = desc["shape"]
    d = case.get("directed")
    if d:
        base = ["matching_cost", "disparity"]
        extra = {"refinement-x3": ["refinement"] * 3, "validation-x2-mc-cnn": ["validation", "filter", "validation"],
                 "validation-x2-sgm": ["validation", "validation", "validation"], "filter-x3": ["filter"] * 3}[d]
        keys = pipes.keys_for(base + extra)
        params = {keys[0]: {"matching_cost_method": "census", "window_size": 3, "subpix": 2},
                  keys[1]: {"disparity_method": "wta", "invalid_disparity": -9999}}
        for k in keys[2:]:
            kind = pipes.kind_of(k)
            if kind == "refinement":
                params[k] = {"refinement_method": "vfit"}
            elif kind == "filter":
                params[k] = {"filter_method": "median", "filter_size": 3}
            else:
                params[k] = {"validation_method": "cross_checking_accurate", "cross_checking_threshold": 0.0,
                             "interpolated_disparity": "sgm" if "sgm" in d else "mc-cnn"}
        info = {"invalid_disparity": -9999, "validation": any(pipes.kind_of(k) == "validation" for k in keys)}
    else:
        keys, params, info = pipes.random_pipeline(rng, rows, cols, repeat_bias=0.45, max_post=5)
    if info["validation"] and desc["interval"] == "grid" and "disparity" not in right:
        pass
    pipe = pipes.build_pipe(keys, params)
    desc.update({"pipeline": keys, "params": {k: params[k] for k in keys}})
    m = pipes.new_machine()
    pipes.check(m, pipe, left, right)
    cfg = pipes.checked_cfg(m, pipe)
    inv = info["invalid_disparity"]
    state = {"validated": False, "before": None}
    kinds = [pipes.kind_of(k) for k in keys]
    for kk in set(kinds):
        n = kinds.count(kk)
        if kk in ("refinement", "filter", "validation"):
            ctx.gate("step_kind_repeated_twice", int(n == 2))
            ctx.gate("step_kind_repeated_3x", int(n >= 3))

    def before(ev, mm):
        if ev["phase"] == "after":
            state["before"] = trace.snapshot(mm)

    def after(ev, mm):
        if ev["phase"] != "after":
            return
        kind, key = ev["kind"], ev["step_key"]
        snap_b = state["before"]
        own = owned_bits(kind, cfg["pipeline"][key])
        if kind in ("matching_cost", "disparity"):
            # these two steps create the flags (prepare + after are one step); ownership applies to later steps
            return _coh(ev, mm)
        ctx.gate("steps_monitored")
        for side in ("left", "right"):
            for dsname in (f"{side}_cv", f"{side}_disparity"):
                cur = getattr(mm, dsname)
                if cur is None or "validity_mask" not in cur:
                    continue
                now = cur["validity_mask"].data.astype(np.int64)
                if not check_no_high_bits(ctx, case, now, f"{key}:{dsname}", desc):
                    continue
                prev_ds = snap_b.get(dsname)
                if prev_ds is None or "validity_mask" not in prev_ds:
                    continue
                prev = prev_ds["validity_mask"].data.astype(np.int64)
                if prev.shape != now.shape:
                    continue
                changed = prev ^ now
                if dsname.endswith("_cv"):
                    # the flags of the cost volume belong to the cost-volume steps: a step working on the disparity map owns
                    # none of them (a second disparity computation from the same volume must not be born with bits 3/8/9/11)
                    ctx.gate("cost_volume_flags_watched_during_later_steps")
                    if (changed != 0).any():
                        i = np.argwhere(changed != 0)[0]
                        ctx.violation("later-step-changed-the-cost-volume-flags",
                                      f"step {key} ({dsname}): pixel {i.tolist()} flag {int(prev[tuple(i)])} -> {int(now[tuple(i)])}", case,
                                      situation=f"{kind}", desc=desc)
                    continue
                foreign = changed & ~own
                if (foreign != 0).any():
                    i = np.argwhere(foreign != 0)[0]
                    ctx.violation(
                        "step-changed-a-bit-it-does-not-own",
                        f"step {key} ({dsname}): pixel {i.tolist()} flag {int(prev[tuple(i)])} -> {int(now[tuple(i)])}; "
                        f"bits owned by the step: {own}", case, situation=f"{kind}", desc=desc)
                if kind == "validation":
                    # a pixel that carries a filled disparity (bit 4 / 5 of an earlier validation step) is either left alone,
                    # flagged again, or flagged and filled again: it never ends up looking like an original valid pixel
                    lost = ((prev & (FILL_OCC | FILL_MIS)) != 0) & ((now & (FILL_OCC | FILL_MIS | OCC | MIS)) == 0)
                    ctx.gate("validation_step_on_pixels_already_filled", int(((prev & (FILL_OCC | FILL_MIS)) != 0).any()))
                    if lost.any():
                        i = np.argwhere(lost)[0]
                        ctx.violation("filled-bit-dropped-by-a-later-validation-step",
                                      f"step {key} ({dsname}): pixel {i.tolist()} flag {int(prev[tuple(i)])} -> {int(now[tuple(i)])}", case,
                                      situation=str(cfg["pipeline"][key].get("interpolated_disparity")), desc=desc)
                    both = (now & OCC != 0) & (now & MIS != 0)
                    if both.any():
                        i = np.argwhere(both)[0]
                        ctx.violation("occlusion-and-mismatch-together", f"step {key} ({dsname}): pixel {i.tolist()} flag {int(now[tuple(i)])}",
                                      case, desc=desc)
                    newly = (changed & (OCC | MIS)) & now
                    was_invalid = (prev & (ref.INVALID_BITS | OCC | MIS)) != 0
                    if cfg["pipeline"][key].get("interpolated_disparity") == "sgm":
                        # sgm: a mismatch touching an occlusion becomes an occlusion (and stays one when nothing is visible)
                        was_invalid &= ~(((prev & MIS) != 0) & ((now & OCC) != 0) & ((now & MIS) == 0))
                    if ((newly != 0) & was_invalid).any():
                        i = np.argwhere((newly != 0) & was_invalid)[0]
                        ctx.violation("cross-check-flag-on-already-invalid-pixel",
                                      f"step {key} ({dsname}): pixel {i.tolist()} {int(prev[tuple(i)])} -> {int(now[tuple(i)])}", case, desc=desc)
        _coh(ev, mm)

    def _coh(ev, mm):
        kind, key = ev["kind"], ev["step_key"]
        if kind == "validation":
            state["validated"] = True
        if not state["validated"] and mm.left_disparity is not None and "disparity_map" in mm.left_disparity and kind in (
                "disparity", "refinement", "filter"):
            coherence(ctx, case, mm.left_cv, mm.left_disparity, inv, desc, f"{key}:left")
            if mm.right_disparity is not None and "disparity_map" in mm.right_disparity:
                coherence(ctx, case, mm.right_cv, mm.right_disparity, inv, desc, f"{key}:right")

    trace.Tracer(m, on_before=before, on_after=after)
    pandora.run(m, left, right, cfg)
    ctx.case(["own", keys, {k: params[k] for k in keys}, desc["shape"], desc["left_mask"], desc["right_mask"]], nontrivial=len(keys) > 2)
    if ctx.evaluations <= 2:
        ctx.sample({"pipeline": pipe, "shape": desc["shape"]})
