"""C05 - configuration checking completes, preserves and polices every parameter.

Model: a declarative parameter-domain table written from the statement and the user guide
(step_by_step/*.rst, input.rst).  Cells the documents leave open are marked don't-care and are
never judged."""
from __future__ import annotations

import copy
import json
import math
import os

import numpy as np

from pvmon import gen, pipes, rasters

LEVEL = "exploration"
RULE = (
    "parameter-domain table (step kind -> method -> parameter -> default, in-domain values, out-of-domain "
    "values, wrong-type values): every row x every value alone in the smallest legal pipeline (complete over "
    "the table), then sampled pairs of faults / combined in-domain values in longer pipelines, then the same "
    "checks in shuffled order within one process (shared class-level schema), through both entry points "
    "(PandoraMachine.check_conf on metadata datasets; check_configuration.check_conf on rasters on disk). "
    "distinct = (entry point, pipeline, parameter values); non-trivial = at least one user-supplied parameter "
    "beyond the method names"
)
ASSUMPTIONS = [
    "cells the statement and the user guide leave open (bool offered for int, int offered for float, eta >= 1, "
    "negative cross_checking_threshold, 'inf' through the machine entry point) are don't-care",
]
GATES = {
    "table_rows_evaluated": 30,
    "defaults_observed": 20,
    "in_domain_accepted": 100,
    "out_of_domain_rejected": 100,
    "census_after_sad": 1,
    "sad_after_census": 1,
    "idempotence_checked": 50,
    "disk_entry_point": 10,
    "nan_string_converted": 1,
    "band_absent_rejected": 1, "band_absent_from_one_image_only": 4,
}

NAN = float("nan")

# (kind, method_key, method, {param: (default, [in-domain], [out-of-domain / wrong type])})
TABLE = [
    ("matching_cost", "matching_cost_method", "sad",
     {"window_size": (5, [1, 3, 5, 7, 11, 99], [0, -1, -3, 2, 4, 6, 3.0, "3", None, [3]]),
      "subpix": (1, [1, 2, 4], [0, -2, 3, 5, 7, 2.0, "2", None]),
      "band": (None, [None], [3, 1.5, ["r"]]),
      "step": (1, [1], [0, 2, 3, -1, "1", 1.5])}),
    ("matching_cost", "matching_cost_method", "ssd",
     {"window_size": (5, [1, 3, 9], [0, 2, 8, "5", 5.0]),
      "subpix": (1, [1, 2, 4], [0, 3, -4, "4"])}),
    ("matching_cost", "matching_cost_method", "census",
     {"window_size": (5, [3, 5], [1, 7, 9, 11, 2, 4, 0, -3, "3", 3.0, None]),
      "subpix": (1, [1, 2, 4], [3, 0, -1, 1.0])}),
    ("matching_cost", "matching_cost_method", "zncc",
     {"window_size": (5, [1, 3, 5, 13], [0, 2, 10, -5, "5", 5.5]),
      "subpix": (1, [1, 2, 4], [3, 5, 0, "1"])}),
    ("aggregation", "aggregation_method", "cbca",
     {"cbca_intensity": (30.0, [30.0, 0.5, 1e-9, 200.0], [0.0, -1.0, -30.0, "30", None, [30.0], NAN, "NaN"]),
      "cbca_distance": (5, [1, 2, 5, 50], [0, -1, -5, 5.0, 2.5, "5", None])}),
    ("disparity", "disparity_method", "wta",
     {"invalid_disparity": (-9999, [-9999, 0, 5, 1.5, -0.5, NAN, "NaN"], ["abc", None, [1], {"a": 1}])}),
    ("refinement", "refinement_method", "vfit", {}),
    ("refinement", "refinement_method", "quadratic", {}),
    ("filter", "filter_method", "median",
     {"filter_size": (3, [1, 3, 5, 7, 21], [0, -1, -3, 2, 4, 10, 3.0, "3", None])}),
    ("filter", "filter_method", "bilateral",
     {"sigma_color": (2.0, [2.0, 0.1, 1e-9, 50.0], [0.0, -1.0, -2.0, "2", None, NAN, "NaN"]),
      "sigma_space": (6.0, [6.0, 0.1, 1.5, 20.0], [0.0, -0.5, -6.0, "6", None, NAN, "NaN"])}),
    ("filter", "filter_method", "median_for_intervals",
     {"filter_size": (3, [1, 3, 5], [0, 2, -3, "3", 3.0]),
      "regularization": (False, [True, False], ["true", None, 2]),
      "ambiguity_threshold": (0.6, [0.0, 0.6, 1.0], [-0.1, 1.5, "0.6"]),
      "ambiguity_kernel_size": (5, [1, 3, 5], [0, 2, -1, 5.0]),
      "vertical_depth": (0, [0, 1, 4], [-1, 1.5, "0"]),
      "quantile_regularization": (1.0, [0.0, 0.5, 1.0], [-0.1, 1.1, "1"])}),
    ("validation", "validation_method", "cross_checking_accurate",
     {"cross_checking_threshold": (1.0, [1.0, 0, 1, 0.4, 2.5], ["1", None, [1]]),
      "interpolated_disparity": ("__absent__", ["mc-cnn", "sgm"], ["mc_cnn", "none", "MC-CNN", 3, None])}),
    ("cost_volume_confidence", "confidence_method", "ambiguity",
     {"eta_max": (0.7, [0.7, 0.1, 0.99, 1e-6], [0.0, -0.1, -0.7, "0.7", None, NAN, "NaN"]),
      "eta_step": (0.01, [0.01, 0.1, 0.5], [0.0, -0.01, "0.01", None, NAN, "NaN"]),
      "normalization": (True, [True, False], ["true", None, 0.5])}),
    ("cost_volume_confidence", "confidence_method", "risk",
     {"eta_max": (0.7, [0.7, 0.2, 0.99], [0.0, -0.5, "0.7", NAN]),
      "eta_step": (0.01, [0.01, 0.3], [0.0, -0.1, "x"])}),
    ("cost_volume_confidence", "confidence_method", "std_intensity", {}),
    ("cost_volume_confidence", "confidence_method", "interval_bounds",
     {"possibility_threshold": (0.9, [0.0, 0.5, 0.9, 1.0], [-0.1, 1.1, "0.9", None, NAN, "NaN"]),
      "regularization": (False, [True, False], ["no", 3]),
      "ambiguity_threshold": (0.6, [0.0, 0.6, 1.0], [-0.5, 2.0]),
      "ambiguity_kernel_size": (5, [1, 5, 7], [0, 4, -3]),
      "vertical_depth": (0, [0, 2], [-2, 0.5]),
      "quantile_regularization": (1.0, [0.0, 1.0], [-1.0, 1.01])}),
    ("multiscale", "multiscale_method", "fixed_zoom_pyramid",
     {"num_scales": (2, [2, 3, 5], [1, 0, -1, -2, 2.0, "2", None]),
      "scale_factor": (2, [2, 3, 4], [1, 0, -2, 2.5, "2", None]),
      "marge": (1, [0, 1, 3, 10], [-1, -3, 1.0, "1", None])}),
]
UNKNOWN_METHODS = ["no_such", "SAD", "", "Median", 3, None]
UNKNOWN_KEYS = [("unknown_param", 1)]

PREFIX = {
    "matching_cost": [],
    "aggregation": ["matching_cost"],
    "cost_volume_confidence": ["matching_cost"],
    "disparity": ["matching_cost"],
    "refinement": ["matching_cost", "disparity"],
    "filter": ["matching_cost", "disparity"],
    "validation": ["matching_cost", "disparity"],
    "multiscale": ["matching_cost", "disparity"],
}

_state: dict = {}


def plan(tier, seed):
    specs = [
        {"name": "table", "work": "table"},
        {"name": "table-shuffled", "work": "table", "shuffle": True},
        {"name": "table-disk", "work": "table-disk"},
        {"name": "pairs", "work": "pairs", "n": 400 if tier == "quick" else 8000},
        {"name": "disk", "work": "disk", "n": 60 if tier == "quick" else 600},
        {"name": "orders", "work": "orders", "n": 60 if tier == "quick" else 1500},
    ]
    if tier == "thorough":
        specs += [{"name": f"pairs-{i}", "work": "pairs", "n": 8000, "sub": i} for i in range(4)]
    return specs


def setup(spec, ctx):
    pipes.register_plugins()
    im = np.zeros((30, 40), np.float32)
    l = gen.make_dataset(im, (-2, 2))
    r = gen.make_dataset(im, (-2, 2))
    _state["mono"] = (gen.metadata_dataset(l), gen.metadata_dataset(r))
    im3 = np.zeros((4, 30, 40), np.float32)
    l3 = gen.make_dataset(im3, (-2, 2))
    r3 = gen.make_dataset(im3, (-2, 2))
    _state["mb"] = (gen.metadata_dataset(l3), gen.metadata_dataset(r3))
    if spec["work"] in ("disk", "table-disk"):
        rng = ctx.rng("disk-images")
        a, b = gen.stereo_pair(rng, 12, 16, "random", max_shift=2)
        d = os.path.join(ctx.workdir, "img")
        _state["left_tif"] = rasters.write_tif(os.path.join(d, "left.tif"), a)
        _state["right_tif"] = rasters.write_tif(os.path.join(d, "right.tif"), b)
        a3, b3 = gen.stereo_pair(rng, 12, 16, "random", max_shift=2, bands=3)
        _state["left3_tif"] = rasters.write_tif(os.path.join(d, "left3.tif"), a3, descriptions=["r", "g", "b"])
        _state["right3_tif"] = rasters.write_tif(os.path.join(d, "right3.tif"), b3, descriptions=["r", "g", "b"])


def _base_pipe(kind, mkey, method, params):
    keys = PREFIX[kind] + [kind]
    pipe = pipes.instantiate(keys)
    pipe[kind] = {mkey: method}
    pipe[kind].update(params)
    return pipe


def table_cases():
    out = []
    for row_i, (kind, mkey, method, params) in enumerate(TABLE):
        out.append({"work": "one", "row": row_i, "param": None, "value": None, "expect": "accept"})
        for pname, (default, good, bad) in params.items():
            for v in good:
                out.append({"work": "one", "row": row_i, "param": pname, "vi": ("good", good.index(v)), "expect": "accept"})
            for v in bad:
                out.append({"work": "one", "row": row_i, "param": pname, "vi": ("bad", bad.index(v)), "expect": "reject"})
        for j, um in enumerate(UNKNOWN_METHODS):
            if row_i in (0, 4, 5, 6, 8, 11, 12, 16):
                out.append({"work": "one", "row": row_i, "param": mkey, "vi": ("method", j), "expect": "reject"})
        out.append({"work": "one", "row": row_i, "param": "unknown_param", "vi": ("unknown", 0), "expect": "reject"})
    return out


def cases(spec, ctx):
    work = spec["work"]
    if work == "table":
        cs = table_cases()
        if spec.get("shuffle"):
            rng = ctx.rng("shuffle")
            rng.shuffle(cs)
        # band-related rows (multiband image): band absent from image must be rejected, present accepted
        cs += [
            {"work": "band", "band": "r", "expect": "accept"},
            {"work": "band", "band": "g", "expect": "accept"},
            {"work": "band", "band": "nir", "expect": "accept"},
            {"work": "band", "band": "rg", "expect": "reject"},
            {"work": "band", "band": "ni", "expect": "reject"},
            {"work": "band", "band": "swir", "expect": "reject"},
            {"work": "band", "band": "R", "expect": "reject"},
            {"work": "band", "band": None, "expect": "reject"},
            {"work": "band-mono", "band": "r", "expect": "reject"},
        ]
        # left and right images with different band lists: the band must exist in BOTH images
        for val in (False, True):
            cs += [
                {"work": "band-asym", "band": "r", "left": ["r", "g", "b"], "right": ["g", "b", "nir"], "validation": val, "expect": "reject"},
                {"work": "band-asym", "band": "nir", "left": ["r", "g", "b"], "right": ["g", "b", "nir"], "validation": val, "expect": "reject"},
                {"work": "band-asym", "band": "g", "left": ["r", "g", "b"], "right": ["g", "b", "nir"], "validation": val, "expect": "accept"},
                {"work": "band-asym", "band": "r", "left": ["r", "g"], "right": None, "validation": val, "expect": "reject"},
                {"work": "band-asym", "band": "r", "left": None, "right": ["r", "g"], "validation": val, "expect": "reject"},
                {"work": "band-asym", "band": None, "left": None, "right": ["r", "g"], "validation": val, "expect": "reject"},
                {"work": "band-asym", "band": None, "left": ["r", "g"], "right": None, "validation": val, "expect": "reject"},
            ]
        yield from cs
    elif work == "table-disk":
        for c in table_cases():
            yield dict(c, entry="disk")
    elif work == "pairs":
        for i in range(spec["n"]):
            yield {"work": "pairs", "i": i, "sub": spec.get("sub", -1)}
    elif work == "disk":
        for i in range(spec["n"]):
            yield {"work": "disk", "i": i}
    elif work == "orders":
        for i in range(spec["n"]):
            yield {"work": "orders", "i": i}


def _value(row, param, vi):
    kind, mkey, method, params = TABLE[row]
    tag, j = vi
    if tag == "good":
        return params[param][1][j]
    if tag == "bad":
        return params[param][2][j]
    if tag == "method":
        return UNKNOWN_METHODS[j]
    if tag == "unknown":
        return 1
    raise ValueError(tag)


def eq(a, b):
    """NaN-aware deep equality with type strictness for bool vs int."""
    if isinstance(a, float) and isinstance(b, float):
        return (math.isnan(a) and math.isnan(b)) or a == b
    if isinstance(a, dict) and isinstance(b, dict):
        return list(a) == list(b) and all(eq(a[k], b[k]) for k in a)
    if isinstance(a, (list, tuple)) and isinstance(b, (list, tuple)):
        return len(a) == len(b) and all(eq(x, y) for x, y in zip(a, b))
    if isinstance(a, bool) != isinstance(b, bool):
        return False
    if isinstance(a, float) and isinstance(b, (int,)) or isinstance(b, float) and isinstance(a, int):
        return False
    try:
        if isinstance(a, float) and math.isnan(a) or isinstance(b, float) and math.isnan(b):
            return False
    except TypeError:
        pass
    return a == b


def converted(v):
    """Documented conversion of the machine entry point: only the string 'NaN' (disparity class)."""
    return NAN if v == "NaN" else v


def judge_accepted(ctx, case, user_pipe, machine, defaults_expected, conv=converted):
    """Returned configuration: keeps every user key/value/position, has every default, idempotent."""
    got = machine.pipeline_cfg["pipeline"]
    if list(got) != list(user_pipe):
        ctx.violation("steps-reordered", f"user steps {list(user_pipe)} -> returned {list(got)}", case)
        return
    for step, up in user_pipe.items():
        gp = got[step]
        ukeys = [k for k in gp if k in up]
        if ukeys != list(up):
            ctx.violation(
                "user-keys-lost-or-reordered",
                f"step {step}: user keys {list(up)} -> returned order {list(gp)}",
                case,
            )
            continue
        for k, v in up.items():
            if not eq(gp[k], conv(v)):
                ctx.violation("user-value-changed", f"step {step}.{k}: user {v!r} -> returned {gp[k]!r}", case)
        for k, dv in defaults_expected.get(step, {}).items():
            if k in up:
                continue
            ctx.gate("defaults_observed")
            if dv == "__absent__":
                if k in gp:
                    ctx.violation("default-wrong", f"step {step}.{k}: should be absent, returned {gp[k]!r}", case,
                                  situation=f"{step}.{k}")
            elif k not in gp or not eq(gp[k], dv):
                ctx.violation(
                    "default-wrong",
                    f"step {step}.{k}: documented default {dv!r}, returned {gp.get(k, '<missing>')!r}",
                    case,
                    situation=f"{pipes.kind_of(step)}.{k}",
                )


def defaults_for(pipe):
    out = {}
    for step, p in pipe.items():
        kind = pipes.kind_of(step)
        for (k2, mkey, method, params) in TABLE:
            if k2 == kind and p.get(mkey) == method:
                out[step] = {pn: spec[0] for pn, spec in params.items()}
    return out


def check_machine(ctx, case, pipe, expect, mb=False):
    """One check through PandoraMachine.check_conf; judges acceptance, preservation, defaults, no mutation,
    idempotence."""
    ml, mr = _state["asym"] if mb == "asym" else _state["mb" if mb else "mono"]
    user = {"pipeline": copy.deepcopy(pipe)}
    snapshot = copy.deepcopy(user)
    m = pipes.new_machine()
    try:
        m.check_conf(user, ml, mr)
        accepted, exc = True, None
    except Exception as e:  # pylint: disable=broad-except
        accepted, exc = False, e
    if not eq(user, snapshot):
        ctx.violation("user-dictionary-mutated", f"user {snapshot} became {user}", case)
    if expect == "accept":
        if not accepted:
            ctx.violation("in-domain-value-rejected", f"pipeline {pipe} rejected: {type(exc).__name__}: {exc}", case,
                          situation=case.get("param"))
            return None
        ctx.gate("in_domain_accepted")
        judge_accepted(ctx, case, pipe, m, defaults_for(pipe))
        # idempotence
        returned = copy.deepcopy(m.pipeline_cfg["pipeline"])
        m2 = pipes.new_machine()
        try:
            m2.check_conf({"pipeline": copy.deepcopy(returned)}, ml, mr)
        except Exception as e:  # pylint: disable=broad-except
            ctx.violation("returned-configuration-rejected", f"{returned} rejected on second check: {e!r}", case)
            return m
        ctx.gate("idempotence_checked")
        if not eq(m2.pipeline_cfg["pipeline"], returned):
            ctx.violation(
                "check-not-idempotent",
                f"first {returned}, second {m2.pipeline_cfg['pipeline']}",
                case,
            )
        return m
    if expect == "reject":
        if accepted:
            ctx.violation("out-of-domain-value-accepted", f"pipeline {pipe} was accepted", case,
                          situation=f"{case.get('param')}")
        else:
            ctx.gate("out_of_domain_rejected")
    return None


def check_disk(ctx, case, pipe, expect):
    """The same table cell through check_configuration.check_conf (rasters on disk, full configuration)."""
    from pandora import check_configuration

    user = {"input": {"left": {"img": _state["left_tif"], "disp": [-2, 2]}, "right": {"img": _state["right_tif"]}},
            "pipeline": copy.deepcopy(pipe)}
    snapshot = copy.deepcopy(user)
    ctx.gate("disk_entry_point")
    try:
        cfg = check_configuration.check_conf(user, pipes.new_machine())
        accepted, exc = True, None
    except Exception as e:  # pylint: disable=broad-except
        accepted, exc = False, e
    if not eq(user, snapshot):
        ctx.violation("user-dictionary-mutated", f"user {snapshot} became {user}", case)
    if expect == "reject":
        if accepted:
            ctx.violation("out-of-domain-value-accepted", f"configuration with pipeline {pipe} was accepted (disk entry point)", case,
                          situation=f"{case.get('param')}")
        else:
            ctx.gate("out_of_domain_rejected")
        return
    if not accepted:
        ctx.violation("in-domain-value-rejected", f"pipeline {pipe} rejected (disk entry point): {type(exc).__name__}: {exc}", case,
                      situation=case.get("param"))
        return
    ctx.gate("in_domain_accepted")

    def conv(v):
        return {"NaN": NAN, "inf": math.inf, "-inf": -math.inf}.get(v, v) if isinstance(v, str) else v

    class _M:
        pipeline_cfg = {"pipeline": cfg["pipeline"]}

    judge_accepted(ctx, case, pipe, _M, defaults_for(pipe), conv=conv)
    try:
        cfg2 = check_configuration.check_conf(copy.deepcopy(cfg), pipes.new_machine())
        ctx.gate("idempotence_checked")
        if not eq(cfg2, cfg):
            ctx.violation("check-not-idempotent", f"first {cfg}, second {cfg2}", case)
    except Exception as e:  # pylint: disable=broad-except
        ctx.violation("returned-configuration-rejected", f"{cfg} rejected on second check: {e!r}", case)


def rand_pipeline(rng, n_faults):
    """A legal pipeline with drawn in-domain parameters; n_faults of them replaced by out-of-domain ones."""
    kinds = ["matching_cost"]
    kinds += [["aggregation", "cost_volume_confidence"][int(x)] for x in rng.integers(0, 2, int(rng.integers(0, 4)))]
    kinds += ["disparity"]
    kinds += [["filter", "refinement", "validation", "filter"][int(x)] for x in rng.integers(0, 4, int(rng.integers(0, 5)))]
    keys = pipes.keys_for(kinds, suffix_first=set(kinds) if rng.random() < 0.2 else None,
                          style=["num", "alpha", "dotted", "word", "kindname"][int(rng.integers(0, 5))])
    pipe = {}
    slots = []
    for key in keys:
        kind = pipes.kind_of(key)
        rows = [r for r in TABLE if r[0] == kind]
        _k, mkey, method, params = rows[int(rng.integers(0, len(rows)))]
        p = {mkey: method}
        names = list(params)
        rng.shuffle(names)
        for pn in names:
            if rng.random() < 0.6:
                good = params[pn][1]
                p[pn] = good[int(rng.integers(0, len(good)))]
            slots.append((key, pn, params[pn]))
        pipe[key] = p
    faults = []
    if n_faults and slots:
        for idx in rng.choice(len(slots), size=min(n_faults, len(slots)), replace=False):
            key, pn, spec = slots[int(idx)]
            bad = spec[2]
            if not bad:
                continue
            pipe[key][pn] = bad[int(rng.integers(0, len(bad)))]
            faults.append(f"{key}.{pn}")
    return pipe, faults


def run_case(case, ctx):
    work = case["work"]
    if work == "one":
        kind, mkey, method, params = TABLE[case["row"]]
        p = {}
        if case["param"] is not None:
            p[case["param"]] = _value(case["row"], case["param"], case["vi"])
        pipe = _base_pipe(kind, mkey, method, {k: v for k, v in p.items() if k != mkey})
        if case["param"] == mkey:
            pipe[kind][mkey] = p[mkey]
        ctx.case(["one", case.get("entry", "machine"), kind, method, case["param"], repr(p)], nontrivial=case["param"] is not None)
        ctx.gate("table_rows_evaluated", int(case["param"] is None))
        ctx.count("table_cells_evaluated")
        if case.get("entry") == "disk":
            check_disk(ctx, case, pipe, case["expect"])
        else:
            check_machine(ctx, case, pipe, case["expect"])
        if ctx.evaluations % 60 == 1:
            ctx.sample({"pipeline": pipe, "expected": case["expect"]})
        return
    if work in ("band", "band-mono"):
        pipe = pipes.instantiate(["matching_cost", "disparity"])
        pipe["matching_cost"]["band"] = case["band"]
        ctx.case([work, case["band"]])
        check_machine(ctx, case, pipe, case["expect"], mb=(work == "band"))
        if case["expect"] == "reject":
            ctx.gate("band_absent_rejected")
        return
    if work == "band-asym":
        def meta(bands):
            im = np.zeros(((len(bands),) if bands else ()) + (30, 40), np.float32)
            return gen.metadata_dataset(gen.make_dataset(im, (-2, 2), bands=bands))
        keys = ["matching_cost", "disparity"] + (["validation"] if case["validation"] else [])
        pipe = pipes.instantiate(keys)
        if case["band"] is not None:
            pipe["matching_cost"]["band"] = case["band"]
        ctx.case([work, case["band"], case["left"], case["right"], case["validation"]])
        _state["asym"] = (meta(case["left"]), meta(case["right"]))
        check_machine(ctx, dict(case, param="band"), pipe, case["expect"], mb="asym")
        if case["expect"] == "reject":
            ctx.gate("band_absent_rejected")
            ctx.gate("band_absent_from_one_image_only")
        return
    if work == "pairs":
        rng = ctx.rng("pairs", case["sub"], case["i"])
        nf = int(rng.integers(0, 3))
        pipe, faults = rand_pipeline(rng, nf)
        ctx.case(["pairs", json.dumps(pipe, default=repr)])
        check_machine(ctx, dict(case, faults=faults), pipe, "reject" if faults else "accept")
        return
    if work == "orders":
        # the matching-cost classes share one class-level schema dict: acceptance must not depend on history
        rng = ctx.rng("orders", case["i"])
        seq = []
        for _ in range(int(rng.integers(3, 7))):
            meth = ["sad", "census", "zncc", "ssd"][int(rng.integers(0, 4))]
            w = int(rng.choice([1, 3, 5, 7, 9, 4, 0]))
            seq.append((meth, w))
        ctx.case(["orders", seq])
        prev = None
        for meth, w in seq:
            ok = (w in (3, 5)) if meth == "census" else (w > 0 and w % 2 == 1)
            pipe = pipes.instantiate(["matching_cost", "disparity"])
            pipe["matching_cost"] = {"matching_cost_method": meth, "window_size": w}
            check_machine(ctx, dict(case, param="window_size", seq=seq), pipe, "accept" if ok else "reject")
            if prev == "census" and meth in ("sad", "ssd") and w in (7, 9, 1):
                ctx.gate("sad_after_census")
            if prev in ("sad", "ssd", "zncc") and meth == "census":
                ctx.gate("census_after_sad")
            prev = meth
        return
    if work == "disk":
        _disk(case, ctx)
        return
    raise ValueError(work)


def _disk(case, ctx):
    from pandora import check_configuration

    rng = ctx.rng("disk", case["i"])
    mb = rng.random() < 0.3
    nf = int(rng.integers(0, 2))
    pipe, faults = rand_pipeline(rng, nf)
    first = list(pipe)[0]
    if mb:
        pipe[first]["band"] = ["r", "g", "b"][int(rng.integers(0, 3))]
        faults = [f for f in faults if f != f"{first}.band"]
    # string forms converted by the full-configuration entry point
    disp_key = next((k for k in pipe if pipes.kind_of(k) == "disparity"), None)
    inv_choice = int(rng.integers(0, 5))
    conv_expect = {}
    if disp_key and f"{disp_key}.invalid_disparity" not in faults:
        sv = [None, "NaN", "inf", "-inf", 7][inv_choice]
        if sv is not None:
            pipe[disp_key]["invalid_disparity"] = sv
            conv_expect[(disp_key, "invalid_disparity")] = {"NaN": NAN, "inf": math.inf, "-inf": -math.inf}.get(sv, sv)
    left = {"img": _state["left3_tif" if mb else "left_tif"], "disp": [-3, 2]}
    right = {"img": _state["right3_tif" if mb else "right_tif"]}
    nodata_choice = int(rng.integers(0, 4))
    if nodata_choice == 1:
        left["nodata"] = "NaN"
    elif nodata_choice == 2:
        left["nodata"] = -5
        right["nodata"] = 0
    elif nodata_choice == 3:
        right["nodata"] = "NaN"
    user = {"input": {"left": left, "right": right}, "pipeline": pipe}
    snapshot = copy.deepcopy(user)
    ctx.case(["disk", json.dumps(user, default=repr)])
    ctx.gate("disk_entry_point")
    m = pipes.new_machine()
    try:
        cfg = check_configuration.check_conf(user, m)
        accepted, exc = True, None
    except Exception as e:  # pylint: disable=broad-except
        accepted, exc = False, e
    if not eq(user, snapshot):
        ctx.violation("user-dictionary-mutated", f"user {snapshot} became {user}", case)
    if faults:
        if accepted:
            ctx.violation("out-of-domain-value-accepted", f"configuration {user} with faults {faults} accepted", case,
                          situation=",".join(sorted(f.split(".")[-1] for f in faults)))
        else:
            ctx.gate("out_of_domain_rejected")
        return
    if not accepted:
        ctx.violation("in-domain-value-rejected", f"configuration {user} rejected: {type(exc).__name__}: {exc}", case)
        return
    ctx.gate("in_domain_accepted")

    def conv(v):
        return {"NaN": NAN, "inf": math.inf, "-inf": -math.inf}.get(v, v) if isinstance(v, str) else v

    # pipeline part
    class _M:  # adapter for judge_accepted
        pipeline_cfg = {"pipeline": cfg["pipeline"]}

    judge_accepted(ctx, case, pipe, _M, defaults_for(pipe), conv=conv)
    if any(isinstance(v, str) and v in ("NaN", "inf", "-inf") for v in [pipe.get(disp_key, {}).get("invalid_disparity")]):
        got = cfg["pipeline"][disp_key]["invalid_disparity"]
        if isinstance(got, float):
            ctx.gate("nan_string_converted")
    # input part: user keys kept, defaults completed
    exp_in = {
        "left": {"nodata": -9999, "mask": None, "classif": None, "segm": None},
        "right": {"nodata": -9999, "mask": None, "classif": None, "segm": None, "disp": None},
    }
    for side in ("left", "right"):
        gi = cfg["input"][side]
        for k, v in user["input"][side].items():
            if not eq(gi.get(k, "<missing>"), conv(v)):
                ctx.violation("user-value-changed", f"input.{side}.{k}: user {v!r} -> returned {gi.get(k)!r}", case)
        for k, dv in exp_in[side].items():
            if k in user["input"][side]:
                continue
            ctx.gate("defaults_observed")
            if k not in gi or not eq(gi[k], dv):
                ctx.violation("default-wrong", f"input.{side}.{k}: documented default {dv!r}, returned {gi.get(k, '<missing>')!r}",
                              case, situation=f"input.{k}")
    # idempotence through the same entry point
    again = copy.deepcopy(cfg)
    try:
        cfg2 = check_configuration.check_conf(again, pipes.new_machine())
    except Exception as e:  # pylint: disable=broad-except
        ctx.violation("returned-configuration-rejected", f"{cfg} rejected on second check: {e!r}", case)
        return
    ctx.gate("idempotence_checked")
    if not eq(cfg2, cfg):
        ctx.violation("check-not-idempotent", f"first {cfg}, second {cfg2}", case)
    if case["i"] < 2:
        ctx.sample({"user": snapshot, "returned": json.loads(json.dumps(cfg, default=repr))})
