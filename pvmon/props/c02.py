"""C02 - the cost volume holds the configured similarity measure, NaN exactly where not computable.

Reference-model monitor: the machine's left and right cost volumes are captured right after the
matching_cost step (tracer hook) and compared, element by element, with pvmon.refs.costs."""
from __future__ import annotations

import numpy as np

from pvmon import gen, pipes, trace
from pvmon.refs import costs as ref

LEVEL = "exploration"
RULE = (
    "generated stereo pairs (6 textures, 9 mask layouts on either side, mono/multiband, ROI-offset coordinates) x "
    "{sad, ssd, census, zncc} x window {1,3,5,7,9} x subpix {1,2,4} x interval kinds {negative, positive, "
    "straddling, point, wider than the image, per-pixel grids}; left volume and (with a validation step) right "
    "volume compared with the brute-force reference. distinct = (measure, window, subpix, interval kind, mask "
    "kinds, shape, texture); non-trivial = the volume has both finite and NaN costs"
)
ASSUMPTIONS = [
    "integer radiometry: SAD and census compared bit for bit, SSD to (w*w+4)*2^-23 relative (float32 sums of w*w squares), ZNCC within "
    "1e-5 + float32 rounding bound of the products; zero-variance windows must give exactly 0",
    "images at least as large as the matching window (smaller ones are out of domain)",
    "image samples are finite (what the file reader guarantees: NaN / inf nodata samples become -9999), except with zncc at "
    "subpix 1, whose window sums deliberately skip NaN samples: there, pixels flagged no-data may hold NaN",
]
GATES = {
    "fractional_negative_disparity_at_left_edge": 1,
    "interval_wider_than_image": 1,
    "point_interval": 1,
    "grid_with_out_of_interval_samples": 1,
    "grid_of_equal_width_intervals": 1, "grid_with_non_integer_bounds": 1,
    "nodata_in_right_window_fractional": 1,
    "zero_variance_window": 1,
    "width_equals_window": 1,
    "right_volume_checked": 5,
    "multiband": 2, "right_bands_in_another_order": 1, "right_image_with_another_mask_convention": 2, "matching_cost_object_reused_over_refilled_buffers": 5, "zncc_on_a_faint_texture_over_a_high_level": 1, "zncc_with_nodata_pixels_holding_nan_samples": 2,
    "roi_offset_coordinates": 2,
    "costs_compared": 100000,
}

INTERVAL_KINDS = ["neg", "pos", "straddle", "point", "wide", "grid", "grid-points", "straddle", "grid-rowwise", "outside",
                  "grid-band", "grid-pointvar", "grid-float"]


def plan(tier, seed):
    n = 8 if tier == "quick" else 16
    per = 30 if tier == "quick" else 380
    specs = []
    for i in range(n):
        specs.append({"name": f"cv-{i}", "work": "cv", "part": i, "n": per, "mode": "B" if i % 4 == 3 or (tier == "thorough" and i % 2) else "A",
                      "timeout": 3000})
    specs.append({"name": "directed", "work": "directed", "timeout": 3000})
    if tier == "thorough":
        specs.append({"name": "big", "work": "big", "n": 12, "timeout": 3000})
    return specs


def setup(spec, ctx):
    pipes.register_plugins()


def cases(spec, ctx):
    if spec["work"] == "cv":
        for i in range(spec["n"]):
            yield {"work": "cv", "part": spec["part"], "i": i}
    elif spec["work"] == "big":
        for i in range(spec["n"]):
            yield {"work": "cv", "part": "big", "i": i, "big": True}
    else:
        # directed constructors for the gating classes
        yield {"work": "directed", "what": "frac-neg-left-edge"}
        for m in ("sad", "ssd", "census", "zncc"):
            for sp in (1, 2, 4):
                yield {"work": "directed", "what": "wide", "method": m, "sp": sp}
                yield {"work": "directed", "what": "outside", "method": m, "sp": sp}
        yield {"work": "directed", "what": "point"}
        yield {"work": "directed", "what": "grid-out"}
        yield {"work": "directed", "what": "grid-band"}
        yield {"work": "directed", "what": "grid-pointvar"}
        for sp in (1, 2, 4):
            yield {"work": "directed", "what": "grid-float", "sp": sp}
        yield {"work": "directed", "what": "nodata-right-frac"}
        yield {"work": "directed", "what": "zero-variance"}
        for k in range(3):
            yield {"work": "directed", "what": "nan-nodata", "method": "zncc", "sp": 1, "i": k}
        for k in range(2):
            yield {"work": "directed", "what": "faint", "method": "zncc", "sp": 1, "i": k}
        for k, m_ in enumerate(("sad", "zncc", "census")):
            yield {"work": "directed", "what": "right-convention", "method": m_, "sp": [1, 2, 4][k], "i": k}
        yield {"work": "directed", "what": "width-eq-window"}
        for m in ("sad", "ssd", "census", "zncc"):
            yield {"work": "directed", "what": "multiband", "method": m}
            yield {"work": "directed", "what": "roi", "method": m}


def build(case, ctx):
    """case -> dict(desc, left, right datasets, pipeline params)."""
    rng = ctx.rng("c02", case.get("part"), case.get("i"), case.get("what"), case.get("method"), case.get("sp"))
    d = {}
    what = case.get("what")
    method = case.get("method") or ["sad", "ssd", "census", "zncc"][int(rng.integers(0, 4))]
    w = int(rng.choice([3, 5])) if method == "census" else int(rng.choice([1, 3, 5, 7, 9]))
    subpix = int(rng.choice([1, 2, 4]))
    if case.get("big"):
        rows, cols = int(rng.integers(100, 131)), int(rng.integers(150, 211))
    else:
        rows, cols = int(rng.integers(w, 41)), int(rng.integers(max(w, 2), 61))
    tex = gen.TEXTURES[int(rng.integers(0, len(gen.TEXTURES)))]
    if method == "ssd" and tex == "extreme":
        tex = "random"
    bands = 1 if rng.random() < 0.75 else int(rng.integers(2, 5))
    lmk = gen.MASK_KINDS[int(rng.integers(0, len(gen.MASK_KINDS)))] if rng.random() < 0.6 else "none"
    rmk = gen.MASK_KINDS[int(rng.integers(0, len(gen.MASK_KINDS)))] if rng.random() < 0.6 else "none"
    ikind = INTERVAL_KINDS[int(rng.integers(0, len(INTERVAL_KINDS)))]
    col0, row0 = (0, 0) if rng.random() < 0.7 else (int(rng.integers(1, 50)), int(rng.integers(1, 50)))
    validation = rng.random() < 0.5
    # directed overrides
    if what == "frac-neg-left-edge":
        subpix, ikind, lmk, rmk = 2, "neg", "none", "none"
    elif what in ("wide", "outside"):
        ikind = what
        subpix = case["sp"]
        rows, cols = int(rng.integers(w, 12)), int(rng.integers(max(w, 2), 14))
    elif what == "point":
        ikind = "point"
    elif what == "grid-out":
        ikind = "grid"
    elif what in ("grid-band", "grid-pointvar"):
        ikind = what
    elif what == "grid-float":
        ikind = what
        subpix = case["sp"]
    elif what == "nodata-right-frac":
        subpix, rmk, ikind = 4, "sparse", "straddle"
    elif what == "zero-variance":
        method, tex, w = "zncc", "patches", 3
    elif what == "nan-nodata":
        subpix, lmk, rmk = case["sp"], "sparse", "sparse"
    elif what == "faint":
        subpix, tex, w = 1, "faint", 3
    elif what == "right-convention":
        subpix, rmk = case["sp"], "sparse"
    elif what == "width-eq-window":
        w = 5
        cols = 5
        rows = 7
        ikind = "straddle"
        method = ["sad", "zncc"][int(rng.integers(0, 2))]
    elif what == "multiband":
        bands = 3
    elif what == "roi":
        col0, row0 = 17, 5
    if tex == "faint" and subpix > 1:
        # interpolated samples of a 3000-count level are not integers: their float32 squares lose the faint variance
        # (catastrophic cancellation, |zncc| can even exceed 1) - a precision limit of the float32 pipeline, see DESIGN section 5
        tex = "random"
    if method == "census" and w not in (3, 5):
        w = 3
    rows, cols = max(rows, w), max(cols, w, 2)
    l, r = gen.stereo_pair(rng, rows, cols, tex, max_shift=3, bands=bands)
    if what == "zero-variance":
        l[2:8, 2:9] = 77.0
        r[:, :] = l
    band = None
    if bands > 1:
        band = gen.BAND_NAMES[int(rng.integers(0, bands))]
    lm, rm = gen.mask(rng, rows, cols, lmk), gen.mask(rng, rows, cols, rmk)
    # datasets built through the API may hold NaN samples on the pixels their mask flags as no data
    # (only explored where the code provides for it: zncc's window sums skip NaN samples (nancumsum); sad/ssd derive their
    # maximal cost from min/max of the images and the sub-pixel interpolation spreads a NaN over its neighbours, so NaN samples
    # with those are outside the domain - the file reader never produces them, it writes -9999 instead)
    nan_nodata = (rng.random() < 0.3 or what == "nan-nodata") and method == "zncc" and subpix == 1
    if nan_nodata:
        for im_, m_ in ((l, lm), (r, rm)):
            if m_ is not None:
                im_[..., np.asarray(m_) == 1] = np.nan
    grid = None
    if ikind.startswith("grid"):
        lo, hi = -int(rng.integers(1, 5)), int(rng.integers(0, 5))
        gk = {"grid": "random", "grid-points": "points", "grid-rowwise": "rowwise", "grid-band": "band", "grid-pointvar": "pointvar", "grid-float": "float"}[ikind]
        gmin, gmax = gen.grids(rng, rows, cols, lo, hi, gk)
        disp = (gmin, gmax)
        # right grids (needed for a validation step with left grids)
        rgmin, rgmax = gen.grids(rng, rows, cols, -hi, -lo, gk)
        rdisp = (rgmin, rgmax)
        grid = True
    else:
        a, b = gen.interval(rng, cols, ikind)
        disp = (a, b)
        rdisp = None
    left = gen.make_dataset(l, disp, lm, row0=row0, col0=col0)
    rbands = None
    if bands > 1 and (what == "multiband" or rng.random() < 0.5):
        # the right image stores the same named bands in another order
        perm = [int(x) for x in np.roll(np.arange(bands), 1 + int(rng.integers(0, bands - 1)))]
        r = r[perm]
        rbands = [gen.BAND_NAMES[i] for i in perm]
    # each dataset declares its own mask convention (valid_pixels / no_data_mask): a fifth of the masked right images use
    # another one than the left image (valid 5, no data 7, anything else invalid)
    right_convention = rm is not None and (rng.random() < 0.2 or what == "right-convention")
    if right_convention:
        rm_coded = np.where(np.asarray(rm) == 0, 5, np.where(np.asarray(rm) == 1, 7, np.asarray(rm) + 10)).astype(np.int16)
        right = gen.make_dataset(r, rdisp, rm_coded, row0=row0, col0=col0, bands=rbands, extra_attrs={"valid_pixels": 5, "no_data_mask": 7})
    else:
        right = gen.make_dataset(r, rdisp, rm, row0=row0, col0=col0, bands=rbands)
    desc = {
        "method": method, "window": w, "subpix": subpix, "shape": [rows, cols], "texture": tex, "bands": bands,
        "band": band, "left_mask": lmk, "right_mask": rmk, "interval": ikind, "col0": col0, "row0": row0,
        "validation": validation, "right_bands": rbands, "right_convention": bool(right_convention), "nan_nodata": bool(nan_nodata and (np.isnan(l).any() or np.isnan(r).any())),
        "disp": [int(np.min(disp[0])), int(np.max(disp[1]))],
    }
    return desc, left, right, band


def compare(ctx, case, desc, side, got_cv, exp, disps_exp, method, attrs, l_img, r_img, w):
    got = got_cv["cost_volume"].data
    disps_got = got_cv.coords["disp"].data
    if len(disps_got) != len(disps_exp) or not np.allclose(disps_got, disps_exp, atol=1e-9):
        ctx.violation("sampled-disparities", f"{side}: volume samples {disps_got.tolist()} but the statement's "
                      f"samples are {disps_exp.tolist()}", case, situation=desc["interval"], desc=desc)
        return
    if got.shape != exp.shape:
        ctx.violation("volume-shape", f"{side}: shape {got.shape} vs {exp.shape}", case, desc=desc)
        return
    gn, en = np.isnan(got), np.isnan(exp)
    ctx.count("costs_compared", got.size)
    ctx.gate("costs_compared", got.size)
    if not np.array_equal(gn, en):
        idx = np.argwhere(gn != en)[:6]
        wit = [{"row": int(i[0]), "col": int(i[1]), "disp": float(disps_exp[i[2]]),
                "observed": float(got[tuple(i)]), "expected": float(exp[tuple(i)])} for i in idx]
        ctx.violation("nan-pattern", f"{side} {desc['method']} w={w} subpix={desc['subpix']}: NaN pattern differs at "
                      f"{int((gn != en).sum())} costs, e.g. {wit}", case,
                      situation="observed-nan" if gn[tuple(idx[0])] else "observed-finite", desc=desc)
        return
    fin = ~en
    if method in ("sad", "census"):
        bad = fin & (got != exp.astype(np.float32))
    elif method == "ssd":
        # float32 sum of w*w float32 squares: worst-case relative error (w*w + 4) * 2^-24 per operation chain, taken twice
        bad = fin & ~np.isclose(got, exp, rtol=max(2e-6, (w * w + 4) * 2.0 ** -23), atol=1e-3)
    else:
        # zncc: interval oracle - float32 rounding of the products bounds the error, amplified by 1/variance
        tol = np.empty(exp.shape)
        for i, d in enumerate(disps_exp):
            tol[:, :, i] = ref.zncc_tolerance(l_img, ref.right_at(r_img.astype(np.float64), d), w)
        border = fin & (tol > 0.05)
        ctx.count("zncc_borderline_not_judged", int(border.sum()))
        bad = fin & ~border & (np.abs(got - exp) > tol)
    if bad.any():
        idx = np.argwhere(bad)[:6]
        wit = [{"row": int(i[0]), "col": int(i[1]), "disp": float(disps_exp[i[2]]),
                "observed": float(got[tuple(i)]), "expected": float(exp[tuple(i)])} for i in idx]
        ctx.violation("cost-value", f"{side} {desc['method']} w={w} subpix={desc['subpix']}: {int(bad.sum())} costs "
                      f"differ, e.g. {wit}", case, situation=method, desc=desc)
    tm = attrs.get("type_measure")
    if tm != ("max" if method == "zncc" else "min"):
        ctx.violation("type-measure", f"{side}: type_measure={tm!r} for {method}", case, desc=desc)
    cmax = attrs.get("cmax")
    judged = fin & ~border if method == "zncc" else fin
    if judged.any():
        # zncc: the costs whose float32 rounding bound exceeds 0.05 (not judged above) are not judged against cmax either
        mx = float(np.nanmax(np.abs(np.where(judged, got, 0.0))))
        lim = {"zncc": 1 + 1e-4}.get(method, cmax)
        if cmax is None or mx > lim + 1e-6:
            ctx.violation("cmax", f"{side}: cmax={cmax} but the largest |cost| is {mx}", case, desc=desc)
        if method == "census" and cmax != w * w:
            ctx.violation("cmax", f"{side}: census cmax={cmax}, window {w}", case, desc=desc)
        if method == "zncc" and cmax != 1:
            ctx.violation("cmax", f"{side}: zncc cmax={cmax}", case, desc=desc)


def run_case(case, ctx):
    import pandora

    desc, left, right, band = build(case, ctx)
    method, w, subpix = desc["method"], desc["window"], desc["subpix"]
    rows, cols = desc["shape"]
    keys = ["matching_cost", "disparity"] + (["validation"] if desc["validation"] else [])
    pipe = pipes.instantiate(keys)
    pipe["matching_cost"] = {"matching_cost_method": method, "window_size": w, "subpix": subpix}
    if band:
        pipe["matching_cost"]["band"] = band
    m = pipes.new_machine()
    pipes.check(m, pipe, left, right)
    cfg = pipes.checked_cfg(m, pipe)
    snaps = {}

    def after(ev, mm):
        if ev["kind"] == "matching_cost" and ev["phase"] == "after":
            snaps["left"] = trace.snapshot(mm, ("left_cv",))["left_cv"]
            snaps["right"] = trace.snapshot(mm, ("right_cv",))["right_cv"]
            snaps["ranges"] = (np.array(mm.disp_min), np.array(mm.disp_max),
                               None if mm.right_disp_min is None else np.array(mm.right_disp_min),
                               None if mm.right_disp_max is None else np.array(mm.right_disp_max))

    trace.Tracer(m, on_after=after)
    lcopy, rcopy = gen.deep_copy_ds(left), gen.deep_copy_ds(right)
    pandora.run(m, left, right, cfg)
    if "left" not in snaps:
        ctx.inconclusive.append("matching_cost hook never reached")
        return
    lcv = snaps["left"]
    # reference
    bi = 0 if band is None else list(lcopy.coords["band_im"].data).index(band)
    L = lcopy["im"].data if lcopy["im"].ndim == 2 else lcopy["im"].data[bi]
    R = rcopy["im"].data if rcopy["im"].ndim == 2 else rcopy["im"].data[list(rcopy.coords["band_im"].data).index(band)]
    lmsk = lcopy["msk"].data if "msk" in lcopy else None
    rmsk = rcopy["msk"].data if "msk" in rcopy else None
    if rmsk is not None and desc["right_convention"]:
        rmsk = np.where(rmsk == 5, 0, np.where(rmsk == 7, 1, 2)).astype(np.int16)  # back to the reference's 0 / 1 / other codes
    dmin = lcopy["disparity"].sel(band_disp="min").data
    dmax = lcopy["disparity"].sel(band_disp="max").data
    exp, disps = ref.reference_cv(method, L, R, dmin, dmax, w, subpix, lmsk, rmsk)
    nontrivial = bool(np.isnan(exp).any() and (~np.isnan(exp)).any())
    ctx.case([desc[k] for k in ("method", "window", "subpix", "interval", "left_mask", "right_mask", "shape",
                               "texture", "bands", "col0")], nontrivial=nontrivial)
    compare(ctx, case, desc, "left", lcv, exp, disps, method, lcv.attrs, L, R, w)
    # situation classes, computed from the data
    gmin, gmax = desc["disp"]
    if subpix > 1 and gmin < 0:
        ctx.gate("fractional_negative_disparity_at_left_edge", int(np.isfinite(exp[:, : w // 2 + 2, :]).any() or True))
    ctx.gate("interval_wider_than_image", int(max(abs(gmin), abs(gmax)) >= cols))
    ctx.gate("point_interval", int(gmin == gmax))
    ctx.gate("grid_with_out_of_interval_samples", int(desc["interval"].startswith("grid") and bool((dmin > gmin).any())))
    ctx.gate("grid_of_equal_width_intervals", int(desc["interval"] in ("grid-band", "grid-pointvar")
                                                  and bool((dmax - dmin == (dmax - dmin).flat[0]).all()) and bool((dmin != dmin.flat[0]).any())))
    ctx.gate("grid_with_non_integer_bounds", int(desc["interval"] == "grid-float"))
    ctx.gate("width_equals_window", int(cols == w))
    ctx.gate("multiband", int(desc["bands"] > 1))
    ctx.gate("right_image_with_another_mask_convention", int(desc["right_convention"]))
    ctx.gate("zncc_on_a_faint_texture_over_a_high_level", int(desc["texture"] == "faint" and desc["method"] == "zncc" and desc["subpix"] == 1))
    ctx.gate("zncc_with_nodata_pixels_holding_nan_samples", int(desc["nan_nodata"] and desc["method"] == "zncc"))
    ctx.gate("right_bands_in_another_order", int(bool(desc["right_bands"])))
    ctx.gate("roi_offset_coordinates", int(desc["col0"] > 0))
    if rmsk is not None and subpix > 1 and (rmsk == 1).any():
        ctx.gate("nodata_in_right_window_fractional")
    if method == "zncc":
        st = ref.window_stack(L.astype(np.float64), w)
        ctx.gate("zero_variance_window", int((np.nan_to_num(st.var(axis=0), nan=1.0) == 0).any()))
    if desc["validation"] and snaps.get("right") is not None and "cost_volume" in snaps["right"]:
        rcv = snaps["right"]
        if "disparity" in rcopy:
            rdmin = rcopy["disparity"].sel(band_disp="min").data
            rdmax = rcopy["disparity"].sel(band_disp="max").data
        else:
            rdmin, rdmax = -dmax, -dmin
        exp_r, disps_r = ref.reference_cv(method, R, L, rdmin, rdmax, w, subpix, rmsk, lmsk)
        compare(ctx, case, desc, "right", rcv, exp_r, disps_r, method, rcv.attrs, R, L, w)
        ctx.gate("right_volume_checked")
    # step-by-step use of the API (as_an_api.rst): ONE matching-cost object serves two scenes, the second one written into the
    # very numpy buffers of the first (what a tiling driver does); the volumes must be those a new object computes
    if rows * cols <= 2500 and (rows + 3 * cols + w) % 3 == 0 and not desc["nan_nodata"]:
        from pandora import matching_cost as mcmod
        from pandora.criteria import validity_mask as vmask

        def api(obj, l_, r_):
            dmn, dmx = l_["disparity"].sel(band_disp="min").data, l_["disparity"].sel(band_disp="max").data
            grid = obj.allocate_cost_volume(l_, (dmn, dmx), cfg)
            grid = vmask(l_, r_, grid)
            cvx = obj.compute_cost_volume(l_, r_, grid)
            obj.cv_masked(l_, r_, cvx, dmn, dmx)
            return cvx

        mc_obj = mcmod.AbstractMatchingCost(**cfg["pipeline"]["matching_cost"])
        l2, r2 = gen.deep_copy_ds(lcopy), gen.deep_copy_ds(rcopy)
        cv_a = api(mc_obj, l2, r2)
        ctx.gate("matching_cost_object_reused_over_refilled_buffers")
        if not gen.same(cv_a["cost_volume"].data, lcv["cost_volume"].data):
            ctx.violation("step-by-step-api-differs-from-the-pipeline", f"{gen.first_diffs(lcv['cost_volume'].data, cv_a['cost_volume'].data, 3)} "
                          "(a = pipeline, b = step-by-step calls)", case, situation="first-use", desc=desc)
        rng2 = ctx.rng("c02-refill", case.get("part"), case.get("i"), case.get("what"), case.get("method"))
        l2["im"].data[...] = np.roll(np.asarray(lcopy["im"].data), 2, axis=-1)[..., ::-1, :]
        r2["im"].data[...] = np.asarray(rcopy["im"].data)[..., ::-1, :] + np.float32(rng2.integers(1, 4))
        cv_b = api(mc_obj, l2, r2)
        cv_ref = api(mcmod.AbstractMatchingCost(**cfg["pipeline"]["matching_cost"]), gen.deep_copy_ds(l2), gen.deep_copy_ds(r2))
        for v_ in ("cost_volume", "validity_mask"):
            if not gen.same(cv_b[v_].data, cv_ref[v_].data):
                ctx.violation("reused-matching-cost-object-differs", f"{v_}: {gen.first_diffs(cv_ref[v_].data, cv_b[v_].data, 3)} (a = new object, "
                              "b = the object that served the previous scene, buffers refilled in place)", case, situation=v_, desc=desc)
    if ctx.evaluations <= 2:
        ctx.sample({"case": desc, "finite_costs": int((~np.isnan(exp)).sum()), "nan_costs": int(np.isnan(exp).sum())})
