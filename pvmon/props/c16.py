"""C16 - image datasets faithfully encode input rasters, masks, nodata and ROI.

Reference model: independent full read of the same files with rasterio + numpy; ROI = crop of the
full read; exhaustive ROI x margins sweep on one small raster."""
from __future__ import annotations

import itertools
import os

import numpy as np

from pvmon import gen, rasters

LEVEL = "exploration"
RULE = (
    "rasters written by the harness: sizes 1x1..40x50, 1-4 named bands, dtypes uint8/int16/uint16/float32, nodata "
    "int / NaN / +-inf (with and without such pixels), mask rasters with values {0,1,2,255,-1,-32768}, disparity pairs "
    "and 2-band grids, classification (named bands) and segmentation rasters; every case read in full and with a random "
    "ROI; exhaustive sweep of every ROI (first <= last in [-3, size+2]) x margins over {0,1,3}^4 on a 5x4 raster "
    "(window arithmetic on all, file reads on a sample plus every boundary position). distinct = (shape, bands, dtype, "
    "nodata kind, mask kind, disparity kind, ROI); non-trivial = dataset with a mask variable or a ROI"
)
ASSUMPTIONS = [
    "an ROI is 'entirely outside' when [first - margin, last + margin] does not intersect [0, size - 1] on some axis",
]
GATES = {
    "clip_left": 1, "clip_up": 1, "clip_right": 1, "clip_down": 1,
    "roi_outside_left": 1, "roi_outside_right": 1, "roi_outside_up": 1, "roi_outside_down": 1,
    "roi_just_outside_first_eq_size": 1, "roi_just_outside_last_eq_minus1": 1,
    "negative_mask_values": 1, "samples_next_to_the_nodata_value": 1, "non_finite_samples_of_another_kind_than_nodata": 1, "nan_nodata_without_nodata_pixel": 1, "roi_sweep_windows": 100000, "datasets_compared": 50,
}
EXHAUSTIVE = False


def plan(tier, seed):
    specs = [{"name": "sweep", "work": "sweep", "reads": 600 if tier == "quick" else 6000, "timeout": 3000}]
    n = 3 if tier == "quick" else 10
    for i in range(n):
        specs.append({"name": f"rasters-{i}", "work": "rasters", "part": i, "n": 50 if tier == "quick" else 400, "timeout": 3000})
    return specs


def cases(spec, ctx):
    if spec["work"] == "sweep":
        yield {"work": "sweep", "reads": spec["reads"], "W": 5, "H": 4}
        yield {"work": "sweep", "reads": spec["reads"] // 3, "W": 1, "H": 1}
        yield {"work": "sweep", "reads": spec["reads"] // 3, "W": 7, "H": 2}
    else:
        for i in range(spec["n"]):
            yield {"work": "rasters", "part": spec["part"], "i": i}


def expected_window(roi, W, H):
    """(col_off, row_off, width, height) of [first - margin, last + margin] clipped to the image, or None when empty."""
    c0 = roi["col"]["first"] - roi["margins"][0]
    c1 = roi["col"]["last"] + roi["margins"][2]
    r0 = roi["row"]["first"] - roi["margins"][1]
    r1 = roi["row"]["last"] + roi["margins"][3]
    cc0, cc1 = max(c0, 0), min(c1, W - 1)
    rr0, rr1 = max(r0, 0), min(r1, H - 1)
    if cc0 > cc1 or rr0 > rr1:
        return None
    return cc0, rr0, cc1 - cc0 + 1, rr1 - rr0 + 1


def expected_dataset(files, cfg):
    """Full-read reference: dict of arrays."""
    img, descs, prof = rasters.read_all(cfg["img"])
    im = img.astype(np.float32)
    nodata = cfg.get("nodata", -9999)
    if isinstance(nodata, float) and np.isnan(nodata):
        nd = np.isnan(im)
    elif isinstance(nodata, float) and np.isinf(nodata):
        nd = np.isinf(im)
    else:
        nd = im == nodata
    nd2 = nd.any(axis=0)
    exp = {}
    im2 = im.copy()
    nodata_attr = nodata
    if nd.any() and isinstance(nodata, float) and (np.isnan(nodata) or np.isinf(nodata)):
        im2[nd] = -9999
        nodata_attr = -9999
    exp["im"] = im2[0] if im.shape[0] == 1 else im2
    exp["bands"] = None if im.shape[0] == 1 else list(descs)
    exp["no_data_img"] = nodata_attr
    mask_file = cfg.get("mask")
    if mask_file is None and not nd.any():
        exp["msk"] = None
    else:
        msk = np.zeros(im.shape[1:], np.int16)
        if mask_file is not None:
            mm, _, _ = rasters.read_all(mask_file)
            msk[mm[0] != 0] = 2
        msk[nd2] = 1
        exp["msk"] = msk
    disp = cfg.get("disp")
    if disp is None:
        exp["disparity"] = None
    elif isinstance(disp, str):
        g, _, _ = rasters.read_all(disp)
        exp["disparity"] = g.astype(np.float32)
    else:
        exp["disparity"] = np.array([np.full(im.shape[1:], disp[0]), np.full(im.shape[1:], disp[1])], dtype=np.float64)
    if cfg.get("classif"):
        c, cd, _ = rasters.read_all(cfg["classif"])
        exp["classif"], exp["classif_bands"] = c.astype(np.int16), list(cd)
    else:
        exp["classif"] = None
    if cfg.get("segm"):
        s, _, _ = rasters.read_all(cfg["segm"])
        exp["segm"] = s[0].astype(np.int16)
    else:
        exp["segm"] = None
    return exp


def compare(ctx, case, desc, ds, exp, win):
    """win: (col_off, row_off, width, height) or None for the full read."""
    def crop(a):
        if a is None or win is None:
            return a
        c0, r0, w, h = win
        return a[..., r0:r0 + h, c0:c0 + w]

    ctx.gate("datasets_compared")
    c0, r0 = (win[0], win[1]) if win else (0, 0)
    e_im = crop(exp["im"])
    if ds["im"].dtype != np.float32 or not gen.same(ds["im"].data, e_im):
        ctx.violation("image-samples", f"im dtype {ds['im'].dtype}; diffs {gen.first_diffs(e_im, ds['im'].data, 3)} (a=reference)", case,
                      situation="roi" if win else "full", desc=desc)
    h, w = e_im.shape[-2:]
    if list(ds.coords["row"].data) != list(range(r0, r0 + h)) or list(ds.coords["col"].data) != list(range(c0, c0 + w)):
        ctx.violation("coordinates", f"row {ds.coords['row'].data[[0, -1]].tolist()} col {ds.coords['col'].data[[0, -1]].tolist()}, expected "
                      f"rows {r0}..{r0 + h - 1} cols {c0}..{c0 + w - 1}", case, situation="roi" if win else "full", desc=desc)
    if exp["bands"] is not None:
        if "band_im" not in ds.coords or list(ds.coords["band_im"].data) != exp["bands"]:
            ctx.violation("band-names", f"{list(ds.coords['band_im'].data) if 'band_im' in ds.coords else None} vs {exp['bands']}", case, desc=desc)
    e_m = crop(exp["msk"])
    # 'no mask variable at all when there is nothing to flag': judged on what the read region contains
    if exp["msk"] is None:
        if "msk" in ds:
            ctx.violation("mask-present-without-cause", "msk variable although there is no mask file and no nodata pixel", case, desc=desc)
    else:
        if "msk" not in ds:
            if desc.get("mask") or (e_m == 1).any():
                ctx.violation("mask-missing", "no msk variable although a mask file / nodata pixels exist", case, desc=desc)
        elif not gen.same(ds["msk"].data, e_m):
            i = gen.first_diffs(e_m, ds["msk"].data, 3)
            ctx.violation("mask-values", f"msk differs: {i} (a=reference: 0 valid, 1 nodata, 2 invalid)", case,
                          situation=desc.get("mask_values", "none"), desc=desc)
    nda = ds.attrs.get("no_data_img")
    if not ((isinstance(nda, float) and isinstance(exp["no_data_img"], float) and np.isnan(nda) and np.isnan(exp["no_data_img"])) or nda == exp["no_data_img"]):
        # NaN/inf nodata is rewritten to -9999 only when such pixels exist in what was read
        e_im_full = crop(exp["im"])
        ctx.violation("no-data-attribute", f"no_data_img={nda!r}, expected {exp['no_data_img']!r}", case, desc=desc) if win is None else None
    e_d = crop(exp["disparity"])
    if e_d is None:
        if "disparity" in ds:
            ctx.violation("disparity-present", "disparity variable without a disp input", case, desc=desc)
    else:
        if "disparity" not in ds or list(ds.coords["band_disp"].data) != ["min", "max"] or not gen.same(
                ds["disparity"].data.astype(np.float64), e_d.astype(np.float64)):
            ctx.violation("disparity-variable", "disparity variable differs from the [min,max] pair / grid bands", case,
                          situation=desc.get("disp_kind"), desc=desc)
    for nm in ("classif", "segm"):
        e = crop(exp[nm])
        if e is None:
            if nm in ds:
                ctx.violation(f"{nm}-present", f"{nm} without input", case, desc=desc)
        elif nm not in ds or not gen.same(ds[nm].data, e):
            ctx.violation(f"{nm}-values", f"{nm} differs from the raster", case, desc=desc)
    if exp["classif"] is not None and "classif" in ds and list(ds.coords["band_classif"].data) != exp["classif_bands"]:
        ctx.violation("classif-band-names", f"{list(ds.coords['band_classif'].data)} vs {exp['classif_bands']}", case, desc=desc)
    for a_ in ("valid_pixels", "no_data_mask", "crs", "transform"):
        if a_ not in ds.attrs:
            ctx.violation("missing-attribute", a_, case, desc=desc)
    if ds.attrs.get("valid_pixels") != 0 or ds.attrs.get("no_data_mask") != 1:
        ctx.violation("mask-convention", f"valid_pixels={ds.attrs.get('valid_pixels')} no_data_mask={ds.attrs.get('no_data_mask')}", case, desc=desc)


def run_case(case, ctx):
    from pandora.img_tools import create_dataset_from_inputs, get_window

    if case["work"] == "sweep":
        return _sweep(case, ctx)
    rng = ctx.rng("rasters", case["part"], case["i"])
    H, W = int(rng.integers(1, 41)), int(rng.integers(1, 51))
    nb = int(rng.choice([1, 1, 2, 3, 4]))
    dtype = ["uint8", "int16", "uint16", "float32"][int(rng.integers(0, 4))]
    hi = {"uint8": 255, "int16": 2000, "uint16": 4095, "float32": 1000}[dtype]
    img = rng.integers(0, hi + 1, (nb, H, W)).astype(dtype)
    nk = ["default", "int", "nan", "inf", "-inf", "nan-none", "int-none"][int(rng.integers(0, 7))]
    mixed = False
    if case["i"] == 0:
        nk, dtype = ["nan", "inf", "-inf"][case["part"] % 3], "float32"
        img = img.astype(np.float32)
    d = os.path.join(ctx.workdir, f"r{case['i']}")
    cfg = {}
    if nk == "int":
        nodata = int(img.flat[0])
        cfg["nodata"] = nodata
    elif nk in ("nan", "inf", "-inf") and dtype == "float32":
        val = {"nan": np.nan, "inf": np.inf, "-inf": -np.inf}[nk]
        sel = rng.random(img.shape) < 0.1
        sel.flat[0] = True
        img = img.astype(np.float32)
        img[sel] = val
        cfg["nodata"] = float(val)
        if rng.random() < 0.6 or case["i"] == 0:
            # non-finite samples of the OTHER kinds are ordinary samples: they are not no-data and stay as they are
            others = [v for v in (np.nan, np.inf, -np.inf) if not (v == val or (np.isnan(v) and np.isnan(val)))]
            sel2 = (rng.random(img.shape) < 0.08) & ~sel
            img[sel2] = rng.choice(np.array(others, np.float32), int(sel2.sum()))
            mixed = bool(sel2.any())
    elif nk == "nan-none":
        cfg["nodata"] = float("nan")
        if dtype == "float32" and rng.random() < 0.5:
            img = img.astype(np.float32)
            img[0, 0, 0] = np.inf  # an inf sample is not NaN: no no-data pixel, no mask
            mixed = True
    elif nk == "int-none":
        cfg["nodata"] = -77
    else:
        nk = "default"
        cfg["nodata"] = -9999
        if rng.random() < 0.3 and dtype in ("int16", "float32"):
            img[0, H // 2, W // 2] = -9999
    near = case["i"] == 1
    if near:
        # directed constructor: samples that are NOT the nodata value but sit next to it (200001 / 199999 for 200000, -9999.0625
        # for -9999): "no-data exactly when a sample EQUALS the nodata value"
        dtype = "float32"
        img = img.astype(np.float32)
        nodata_v = [200000, -9999][case["part"] % 2]
        cfg["nodata"] = nodata_v
        nk = "near"
        flat = img.reshape(-1)
        k = max(1, flat.size // 7)
        flat[:k:3] = nodata_v
        flat[1:k:3] = np.float32(nodata_v + (1 if nodata_v > 0 else 0.0625))
        flat[2:k:3] = np.float32(nodata_v - (1 if nodata_v > 0 else 0.0625))
    ctx.gate("samples_next_to_the_nodata_value", int(near))
    names = gen.BAND_NAMES[:nb] if nb > 1 else None
    cfg["img"] = rasters.write_tif(os.path.join(d, "img.tif"), img, dtype, descriptions=names, georef=bool(rng.integers(0, 2)))
    mk = ["none", "zeros", "binary", "values", "negative"][int(rng.integers(0, 5))]
    if mk != "none":
        if mk == "zeros":
            mm = np.zeros((H, W), np.int16)
        elif mk == "binary":
            mm = rng.integers(0, 2, (H, W)).astype(np.int16)
        elif mk == "values":
            mm = rng.choice(np.array([0, 0, 1, 2, 255], np.int16), (H, W))
        else:
            mm = rng.choice(np.array([0, 0, -1, -32768, 1], np.int16), (H, W))
        cfg["mask"] = rasters.write_tif(os.path.join(d, "mask.tif"), mm, "int16")
    dk = ["none", "pair", "grid"][int(rng.integers(0, 3))]
    if dk == "pair":
        a = int(rng.integers(-9, 5))
        cfg["disp"] = [a, a + int(rng.integers(0, 9))]
    elif dk == "grid":
        gmin, gmax = gen.grids(rng, H, W, -5, 4, "random")
        cfg["disp"] = rasters.write_tif(os.path.join(d, "grid.tif"), np.array([gmin, gmax]), "float32")
    if rng.random() < 0.25:
        cl = rng.integers(0, 2, (2, H, W)).astype(np.int16)
        cfg["classif"] = rasters.write_tif(os.path.join(d, "classif.tif"), cl, "int16", descriptions=["building", "veg"])
    if rng.random() < 0.25:
        cfg["segm"] = rasters.write_tif(os.path.join(d, "segm.tif"), rng.integers(0, 9, (H, W)).astype(np.int16), "int16")
    desc = {"shape": [H, W], "bands": nb, "dtype": dtype, "nodata": nk, "mask": mk != "none", "mask_values": mk, "disp_kind": dk,
            "classif": "classif" in cfg, "segm": "segm" in cfg}
    exp = expected_dataset(None, cfg)
    ds = create_dataset_from_inputs(dict(cfg))
    compare(ctx, case, desc, ds, exp, None)
    ctx.gate("non_finite_samples_of_another_kind_than_nodata", int(mixed))
    ctx.gate("negative_mask_values", int(mk == "negative"))
    ctx.gate("nan_nodata_without_nodata_pixel", int(nk == "nan-none"))
    # one random ROI on the same files
    f0, f1 = sorted(int(x) for x in rng.integers(-2, W + 2, 2))
    g0, g1 = sorted(int(x) for x in rng.integers(-2, H + 2, 2))
    roi = {"col": {"first": f0, "last": f1}, "row": {"first": g0, "last": g1}, "margins": [int(x) for x in rng.integers(0, 4, 4)]}
    win = expected_window(roi, W, H)
    try:
        ds_roi = create_dataset_from_inputs(dict(cfg), roi=roi)
        ok = True
    except Exception as e:  # pylint: disable=broad-except
        ok, err = False, e
    d2 = dict(desc, roi=roi)
    if win is None:
        if ok:
            ctx.violation("roi-outside-not-refused", f"ROI {roi} on a {W}x{H} image returned a dataset of sizes {dict(ds_roi.sizes)}", case,
                          situation="random-roi", desc=d2)
    elif not ok:
        ctx.violation("roi-inside-refused", f"ROI {roi} on a {W}x{H} image raised {err!r}", case, desc=d2)
    else:
        compare(ctx, case, d2, ds_roi, exp, win)
    ctx.case([desc[k] for k in sorted(desc)] + [roi], nontrivial=True)
    if ctx.evaluations <= 2:
        ctx.sample({"case": desc, "roi": roi, "expected_window": win})


def _sweep(case, ctx):
    from pandora.img_tools import create_dataset_from_inputs, get_window

    W, H = case.get("W", 5), case.get("H", 4)
    rng = ctx.rng("sweep", W, H)
    img = rng.integers(0, 255, (H, W)).astype(np.float32)
    d = os.path.join(ctx.workdir, f"sweep{W}x{H}")
    cfg = {"img": rasters.write_tif(os.path.join(d, "img.tif"), img, "float32"), "disp": [-2, 2], "nodata": -9999}
    mm = rng.integers(0, 2, (H, W)).astype(np.int16)
    cfg["mask"] = rasters.write_tif(os.path.join(d, "mask.tif"), mm, "int16")
    exp = expected_dataset(None, cfg)
    cols = [(a, b) for a in range(-3, W + 3) for b in range(a, W + 3)]
    rows = [(a, b) for a in range(-3, H + 3) for b in range(a, H + 3)]
    margins = list(itertools.product([0, 1, 3], repeat=4))
    n = 0
    budget = case["reads"]
    boundary_cols = {(W, W), (W, W + 1), (-1, -1), (-2, -1), (W - 1, W - 1), (0, 0), (-3, -3), (W + 2, W + 2)}
    total = len(cols) * len(rows) * len(margins)
    stride = max(1, total // budget)
    bad_seen = set()
    for (c0, c1) in cols:
        for (r0, r1) in rows:
            for mg in margins:
                n += 1
                roi = {"col": {"first": c0, "last": c1}, "row": {"first": r0, "last": r1}, "margins": list(mg)}
                win = expected_window(roi, W, H)
                try:
                    gw = get_window(roi, W, H)
                    got = (int(gw.col_off), int(gw.row_off), int(gw.width), int(gw.height))
                    refused = False
                except ValueError:
                    got, refused = None, True
                ctx.gate("roi_sweep_windows")
                if win is None:
                    sit = []
                    if c1 + mg[2] < 0:
                        sit.append("left")
                        ctx.gate("roi_outside_left")
                        ctx.gate("roi_just_outside_last_eq_minus1", int(c1 + mg[2] == -1))
                    if c0 - mg[0] > W - 1:
                        sit.append("right")
                        ctx.gate("roi_outside_right")
                        ctx.gate("roi_just_outside_first_eq_size", int(c0 - mg[0] == W))
                    if r1 + mg[3] < 0:
                        sit.append("up")
                        ctx.gate("roi_outside_up")
                    if r0 - mg[1] > H - 1:
                        sit.append("down")
                        ctx.gate("roi_outside_down")
                    if not refused and not (got[2] <= 0 or got[3] <= 0) or (not refused):
                        key = ("outside", tuple(sit), got is not None and (got[2] <= 0 or got[3] <= 0))
                        if key not in bad_seen:
                            bad_seen.add(key)
                            ctx.violation("roi-outside-not-refused",
                                          f"ROI {roi} on a {W}x{H} image ({'/'.join(sit)} of the image): get_window returned {got}", case,
                                          situation="just-outside" if (c0 - mg[0] == W or r0 - mg[1] == H or c1 + mg[2] == -1 or r1 + mg[3] == -1) else "far-outside",
                                          desc={"roi": roi})
                    continue
                ctx.gate("clip_left", int(c0 - mg[0] < 0))
                ctx.gate("clip_up", int(r0 - mg[1] < 0))
                ctx.gate("clip_right", int(c1 + mg[2] > W - 1))
                ctx.gate("clip_down", int(r1 + mg[3] > H - 1))
                if refused or got != win:
                    key = ("inside", refused)
                    if key not in bad_seen:
                        bad_seen.add(key)
                        ctx.violation("roi-window", f"ROI {roi} on a {W}x{H} image: window {got}{' (refused)' if refused else ''}, expected {win}", case,
                                      desc={"roi": roi})
                    continue
                if n % stride == 0 or (c0, c1) in boundary_cols:
                    if (c0, c1) in boundary_cols and n % 7 and n % stride:
                        continue
                    ds = create_dataset_from_inputs(dict(cfg), roi=roi)
                    compare(ctx, case, {"roi": roi, "mask": True}, ds, exp, win)
    ctx.case(["sweep", W, H, total])
    ctx.case(["sweep-total", total])
    ctx.note("roi_sweep_total", total)
    ctx.sample({"sweep_raster": [H, W], "roi_combinations": total})
