"""C03 - winner-takes-all picks each pixel's best cost inside its disparity interval.

Reference model: first index of the nan-optimum over the whole array at once (no blocks)."""
from __future__ import annotations

import itertools

import numpy as np

from pvmon import gen, pipes, trace

LEVEL = "exploration"
RULE = (
    "synthetic cost volumes: shapes from {1,2,3,5,99,100,101,199,200,201,250}^2 x D in {1,2,3,7}, costs quantised "
    "to 4 levels (ties) or float, NaN prefixes/suffixes/holes/all-NaN pixels, min and max type, integer and "
    "fractional disparity coordinates, invalid_disparity in {-9999, NaN, 1e6, -0.0, 0.5, a value inside the "
    "interval}; one image holding all 27 patterns of {NaN,0,1}^3; plus the disparity step of traced pipelines. "
    "distinct = (shape, D, type, NaN kind, invalid_disparity, subpix); non-trivial = volume has ties and NaN"
)
ASSUMPTIONS = ["invalid_disparity values are float32-representable (the map is float32)"]
GATES = {
    "two_blocks_both_axes_with_tie_and_allnan_in_later_block": 1,
    "nan_invalid_disparity": 1, "more_than_256_disparity_samples": 1,
    "max_type_with_ties": 1, "similarity_volume_with_costs_at_or_below_minus_cmax": 1, "disparity_object_reused_for_a_volume_of_the_other_type": 1, "volume_computed_with_a_window_larger_than_1": 1, "volume_with_infinite_costs": 1, "volume_is_a_window_of_a_larger_buffer": 1, "volume_in_the_matching_cost_layout": 1,
    "all_27_patterns_D3": 1,
    "pipeline_disparity_steps": 5,
    "pixels_judged": 100000,
}
SIZES = [1, 2, 3, 5, 99, 100, 101, 199, 200, 201, 250]
INVALID = [-9999, "nan", 1e6, -0.0, 0.5, "inside"]
EXHAUSTIVE = False


def plan(tier, seed):
    shapes = list(itertools.product(SIZES, SIZES))
    n = 4 if tier == "quick" else 12
    specs = []
    for i in range(n):
        specs.append({"name": f"synth-{i}", "work": "synth", "part": i, "parts": n,
                      "per_shape": 1 if tier == "quick" else 4, "sub": 4 if tier == "quick" else 1,
                      "mode": "B" if i % 4 == 3 else "A", "timeout": 3000})
    specs.append({"name": "patterns", "work": "patterns"})
    np_ = 2 if tier == "quick" else 8
    for i in range(np_):
        specs.append({"name": f"pipe-{i}", "work": "pipe", "part": i, "n": 40 if tier == "quick" else 250,
                      "mode": "B" if i % 2 else "A", "timeout": 3000})
    return specs


def setup(spec, ctx):
    pipes.register_plugins()


def cases(spec, ctx):
    if spec["work"] == "synth":
        shapes = list(itertools.product(SIZES, SIZES))
        rng = ctx.rng("shape-order")
        order = rng.permutation(len(shapes))
        # quick: a quarter of the shapes, always including multi-block ones
        k = 0
        for idx in order:
            k += 1
            if k % spec["parts"] != spec["part"]:
                continue
            if spec["sub"] > 1 and (k // spec["parts"]) % spec["sub"] != 0 and shapes[idx] not in ((201, 101), (101, 250)):
                continue
            for j in range(spec["per_shape"]):
                yield {"work": "synth", "shape": list(shapes[idx]), "j": j}
        if spec["part"] == 0:
            yield {"work": "synth", "shape": [201, 101], "j": 99}
            yield {"work": "synth", "shape": [101, 250], "j": 98}
            for k in range(6):
                yield {"work": "synth", "shape": [[5, 7], [3, 20], [9, 9]][k % 3], "j": 100 + 2 * k}
            # directed constructors of the situation classes that otherwise depend on which shapes the seed selects
            for k, fc in enumerate(("window", "matching-cost", "inf", "neg-similarity", "reuse", "window", "inf", "neg-similarity", "reuse")):
                yield {"work": "synth", "shape": [[9, 12], [6, 15], [11, 8]][k % 3], "j": 301 + 2 * k, "force": fc}
    elif spec["work"] == "patterns":
        for tm in ("min", "max"):
            for inv in (-9999, "nan"):
                yield {"work": "patterns", "tm": tm, "inv": inv}
    else:
        for i in range(spec["n"]):
            yield {"work": "pipe", "part": spec["part"], "i": i}


def first_optimum(costs, tm):
    """Reference: first index of the optimum of the finite costs; -1 where no cost is computable."""
    fin = ~np.isnan(costs)
    if tm == "min":
        filled = np.where(fin, costs, np.inf)
        best = filled.min(axis=2, keepdims=True)
    else:
        filled = np.where(fin, costs, -np.inf)
        best = filled.max(axis=2, keepdims=True)
    is_best = fin & (filled == best)
    idx = np.argmax(is_best, axis=2)
    idx[~fin.any(axis=2)] = -1
    return idx


def judge(ctx, case, cv_before, cv_after, disp_ds, invalid, tm, desc, pix_min=None, pix_max=None):
    costs = cv_before["cost_volume"].data
    disps = cv_before.coords["disp"].data
    exp_idx = first_optimum(costs, tm)
    got = disp_ds["disparity_map"].data
    ctx.count("pixels_judged", got.size)
    ctx.gate("pixels_judged", got.size)
    has = exp_idx >= 0
    inv32 = np.float32(invalid)
    # all-NaN pixels: exactly invalid_disparity
    g_inv = got[~has]
    if g_inv.size:
        ok = np.isnan(g_inv) if np.isnan(inv32) else (g_inv == inv32) & (np.signbit(g_inv) == np.signbit(inv32))
        if not ok.all():
            i = np.argwhere(~has)[np.argmin(ok)]
            ctx.violation("all-nan-pixel-not-invalid-disparity",
                          f"pixel {i.tolist()} has no computable cost but disparity {got[tuple(i)]!r} (invalid={invalid})",
                          case, situation=desc.get("nan_kind"), desc=desc)
    # pixels with a computable cost
    exp_disp = disps[np.clip(exp_idx, 0, None)].astype(np.float32)
    bad = has & (got != exp_disp)
    if bad.any():
        i = np.argwhere(bad)[0]
        r, c = int(i[0]), int(i[1])
        g = got[r, c]
        what = "not-a-sampled-disparity" if not np.any(disps.astype(np.float32) == g) else (
            "not-the-optimum" if not (costs[r, c, np.argmax(disps.astype(np.float32) == g)] == costs[r, c, exp_idx[r, c]]) else "tie-not-lowest")
        ctx.violation("winner-differs",
                      f"{int(bad.sum())} pixels differ; pixel ({r},{c}) costs {costs[r, c].tolist()} over {disps.tolist()} "
                      f"({tm}) -> {g!r}, reference {exp_disp[r, c]!r}", case, situation=what, desc=desc)
    if pix_min is not None:
        out = has & ((got < pix_min) | (got > pix_max))
        if out.any():
            i = np.argwhere(out)[0]
            ctx.violation("winner-outside-pixel-interval",
                          f"pixel {i.tolist()} disparity {got[tuple(i)]} outside [{pix_min[tuple(i)]},{pix_max[tuple(i)]}]",
                          case, desc=desc)
    # cost volume values unchanged, bands and flags carried over
    if not gen.same(cv_after["cost_volume"].data, costs):
        ctx.violation("cost-volume-changed-by-disparity-step",
                      f"diffs {gen.first_diffs(costs, cv_after['cost_volume'].data, 4)}", case, desc=desc)
    if not gen.same(disp_ds["validity_mask"].data, cv_before["validity_mask"].data):
        ctx.violation("flags-not-carried-over", f"diffs {gen.first_diffs(cv_before['validity_mask'].data, disp_ds['validity_mask'].data, 4)}",
                      case, desc=desc)
    if not gen.same(cv_after["validity_mask"].data, cv_before["validity_mask"].data):
        ctx.violation("cost-volume-flags-changed", "validity_mask of the cost volume changed", case, desc=desc)
    if "confidence_measure" in cv_before:
        if "confidence_measure" not in disp_ds or not gen.same(disp_ds["confidence_measure"].data, cv_before["confidence_measure"].data) \
                or list(disp_ds.coords["indicator"].data) != list(cv_before.coords["indicator"].data):
            ctx.violation("confidence-bands-not-carried-over", "confidence bands differ after the disparity step", case, desc=desc)
    di = disp_ds["disparity_interval"].data
    if not (di[0] == disps[0] and di[1] == disps[-1]):
        ctx.violation("disparity-interval", f"stored disparity_interval {di.tolist()} vs sampled [{disps[0]},{disps[-1]}]", case, desc=desc)
    return exp_idx


def run_case(case, ctx):
    from pandora import disparity

    work = case["work"]
    if work == "synth":
        rows, cols = case["shape"]
        rng = ctx.rng("synth", rows, cols, case["j"])
        nd = int(rng.choice([1, 2, 3, 7]))
        if case.get("force"):
            nd = 7
        if rows * cols <= 400 and case["j"] % 2 == 0:
            nd = int(rng.choice([257, 300, 321]))  # more disparity samples than an 8-bit index can hold
        tm = ["min", "max"][int(rng.integers(0, 2))]
        fc = case.get("force")
        if fc == "neg-similarity":
            tm = "max"
        subpix = int(rng.choice([1, 2, 4]))
        nan_kind = ["mixed", "interval", "holes", "allnan", "none"][int(rng.integers(0, 5))]
        if case.get("force"):
            nan_kind = "mixed"
        floaty = rng.random() < 0.25 or nd > 256
        d0 = int(rng.integers(-5, 3))
        disps = d0 + np.arange(nd) / float(subpix) if subpix > 1 else d0 + np.arange(nd)
        costs, lo, hi = gen.synth_costs(rng, rows, cols, nd, nan_kind=nan_kind, floaty=floaty)
        if nd > 256:
            # directed: one pixel whose (first) best cost sits at the last sample
            costs[0, 0, :] = 50.0
            costs[0, 0, nd - 1] = -1.0 if tm == "min" else 1000.0
            lo[0, 0], hi[0, 0] = 0, nd - 1
        if rows > 100 and cols > 100:
            # directed: a tie and an all-NaN pixel in a non-first block
            costs[150 % rows, 120 % cols, :] = 1.0
            costs[(150 % rows) - 1, 120 % cols, :] = np.nan
            lo[150 % rows, 120 % cols], hi[150 % rows, 120 % cols] = 0, nd - 1
        cmax_attr = None
        if tm == "max" and ((case["j"] + rows + cols) % 2 == 1 or fc == "neg-similarity"):
            # a bounded similarity (zncc: cmax 1) whose computable costs are all at or below -cmax on some pixels (anti-correlated
            # windows): a missing cost is still worse than any computable one
            costs = -costs - np.float32(1.0)
            cmax_attr = 1
        ctx.gate("similarity_volume_with_costs_at_or_below_minus_cmax", int(cmax_attr is not None and nan_kind != "none"))
        with_inf = ((case["j"] + rows + 2 * cols) % 5 == 2 or fc == "inf") and nd >= 2
        if with_inf:
            # a few computable costs are infinite (overflowing squared differences, a plugin's "forbidden" marker): the worst
            # possible cost of the measure, on pixels that keep at least one finite cost
            worst = np.inf if tm == "min" else -np.inf
            sel = (rng.random(costs.shape) < 0.1) & ~np.isnan(costs)
            keep = np.argmax(~np.isnan(costs), axis=2)
            sel[np.arange(rows)[:, None], np.arange(cols)[None, :], keep] = False
            costs[sel] = worst
        ctx.gate("volume_with_infinite_costs", int(with_inf and bool(np.isinf(costs).any())))
        inv = INVALID[int(rng.integers(0, len(INVALID)))]
        inv_val = {"nan": np.nan, "inside": float(disps[nd // 2])}.get(inv, inv)
        conf = None
        names = None
        if rng.random() < 0.4:
            conf = rng.random((rows, cols, 2)).astype(np.float32)
            conf[rng.random(conf.shape) < 0.1] = np.nan
            names = ["confidence_from_a", "confidence_from_b.x"]
        validity = rng.choice(np.array([0, 1, 2, 4, 64, 66, 130], np.uint16), (rows, cols))
        # memory layout of the volume handed to the step: dense C order, the matching-cost step's layout (allocated
        # (disp, col, row) and transposed), Fortran order, or a window of a larger buffer (what .isel() of a volume gives)
        layout = ["C", "matching-cost", "F", "window"][(case["j"] + 3 * rows + cols) % 4 if rows * cols <= 40000 else 0]
        if fc in ("window", "matching-cost"):
            layout = fc
        if layout == "matching-cost":
            costs = np.ascontiguousarray(costs.transpose(2, 1, 0)).transpose(2, 1, 0)
        elif layout == "F":
            costs = np.asfortranarray(costs)
        elif layout == "window":
            big = np.full((rows + 2, cols + 3, nd + 2), np.float32(7.0))
            big[1:-1, 2:-1, 1:-1] = costs
            costs = big[1:-1, 2:-1, 1:-1]
        # the window the volume was computed with (offset_row_col = its radius): flags and costs of the border rows / columns
        # are whatever the producer of the volume put there, and must be carried over like the others
        wsz = [1, 3, 5, 1][(case["j"] + rows + cols) % 4] if min(rows, cols) >= 5 else 1
        if fc == "reuse":
            wsz = 3
        cv = gen.make_cv(costs, disps, tm, window_size=wsz, subpix=subpix, validity=validity, conf=conf, conf_names=names,
                         cmax=cmax_attr)
        ctx.gate("volume_computed_with_a_window_larger_than_1", int(wsz > 1))
        if layout != "C" and cv["cost_volume"].data.flags["C_CONTIGUOUS"] and sum(int(n_ > 1) for n_ in (rows, cols, nd)) >= 2:
            ctx.inconclusive.append(f"layout {layout} was lost when the dataset was built")
        ctx.gate("volume_is_a_window_of_a_larger_buffer", int(layout == "window" and nan_kind != "none"))
        ctx.gate("volume_in_the_matching_cost_layout", int(layout == "matching-cost"))
        before = gen.deep_copy_ds(cv)
        desc = {"shape": [rows, cols], "D": nd, "type": tm, "subpix": subpix, "nan_kind": nan_kind, "floaty": floaty, "layout": layout,
                "invalid_disparity": inv}
        disp_ = disparity.AbstractDisparity(disparity_method="wta", invalid_disparity=inv_val)
        out = disp_.to_disp(cv, None, None)
        pix_min = pix_max = None
        if nan_kind in ("interval",):
            pix_min, pix_max = disps[lo].astype(np.float32), disps[hi].astype(np.float32)
        if inv == "inside":
            # the 'iff' clause cannot be read off the map; judge everything else with a sentinel comparison
            pass
        exp_idx = judge(ctx, case, before, cv, out, inv_val, tm, desc, pix_min, pix_max)
        if rows * cols <= 40000 and ((case["j"] + rows + cols) % 3 == 0 or fc == "reuse"):
            # step-by-step use of the API: the SAME disparity object then serves a second volume of the same shape and of the other
            # type of measure (the costs negated: the same winners), and a third one of another shape
            tm2 = "max" if tm == "min" else "min"
            cv2 = gen.make_cv(-np.ascontiguousarray(before["cost_volume"].data), disps, tm2, window_size=wsz, subpix=subpix, validity=validity,
                              conf=conf, conf_names=names)
            before2 = gen.deep_copy_ds(cv2)
            out2 = disp_.to_disp(cv2, None, None)
            judge(ctx, case, before2, cv2, out2, inv_val, tm2, dict(desc, second_use_of_the_same_object=True, type=tm2), pix_min, pix_max)
            ctx.gate("disparity_object_reused_for_a_volume_of_the_other_type")
        ties = bool(((costs == np.nanmin(np.where(np.isnan(costs), np.inf, costs), axis=2, keepdims=True)).sum(axis=2) > 1).any()) if nd > 1 else False
        ctx.case([desc[k] for k in desc], nontrivial=bool(ties and np.isnan(costs).any()))
        if rows > 100 and cols > 100:
            ctx.gate("two_blocks_both_axes_with_tie_and_allnan_in_later_block")
        ctx.gate("more_than_256_disparity_samples", int(nd > 256 and bool((exp_idx >= 256).any())))
        ctx.gate("nan_invalid_disparity", int(inv == "nan" and bool((exp_idx < 0).any())))
        ctx.gate("max_type_with_ties", int(tm == "max" and ties))
        if ctx.evaluations <= 2:
            ctx.sample({"case": desc, "pixels": rows * cols, "all_nan_pixels": int((exp_idx < 0).sum())})
        return
    if work == "patterns":
        pats = list(itertools.product([np.nan, 0.0, 1.0], repeat=3))
        costs = np.array(pats, np.float32).reshape(3, 9, 3)
        inv_val = np.nan if case["inv"] == "nan" else case["inv"]
        cv = gen.make_cv(costs, np.array([-1, 0, 1]), case["tm"])
        before = gen.deep_copy_ds(cv)
        out = disparity.AbstractDisparity(disparity_method="wta", invalid_disparity=inv_val).to_disp(cv, None, None)
        judge(ctx, case, before, cv, out, inv_val, case["tm"], {"patterns": 27, "type": case["tm"]})
        ctx.case(["patterns", case["tm"], case["inv"]])
        ctx.gate("all_27_patterns_D3")
        return
    if work == "pipe":
        _pipe(case, ctx)
        return
    raise ValueError(work)


def _pipe(case, ctx):
    import pandora

    rng = ctx.rng("pipe", case["part"], case["i"])
    method = ["sad", "ssd", "census", "zncc"][int(rng.integers(0, 4))]
    w = 3 if method == "census" else int(rng.choice([1, 3, 5]))
    subpix = int(rng.choice([1, 2, 4]))
    rows, cols = int(rng.integers(max(w, 4), 30)), int(rng.integers(max(w, 4), 40))
    if case["i"] % 10 == 0:
        rows, cols = int(rng.integers(101, 130)), int(rng.integers(101, 140))
    tex = gen.TEXTURES[int(rng.integers(0, len(gen.TEXTURES) - 1))]
    l, r = gen.stereo_pair(rng, rows, cols, tex, max_shift=3)
    lm = gen.mask(rng, rows, cols, gen.MASK_KINDS[int(rng.integers(0, len(gen.MASK_KINDS)))]) if rng.random() < 0.5 else None
    rm = gen.mask(rng, rows, cols, gen.MASK_KINDS[int(rng.integers(0, len(gen.MASK_KINDS)))]) if rng.random() < 0.5 else None
    use_grid = rng.random() < 0.4
    lo, hi = -int(rng.integers(0, 4)), int(rng.integers(0, 4))
    if use_grid:
        disp = gen.grids(rng, rows, cols, lo, hi, ["random", "band", "pointvar"][int(rng.integers(0, 3))])
    else:
        disp = (lo, hi)
    left = gen.make_dataset(l, disp, lm)
    right = gen.make_dataset(r, None, rm)
    kinds = ["matching_cost"]
    if rng.random() < 0.3 and method != "zncc" and min(rows, cols) >= 5:
        kinds.append("aggregation")
    if rng.random() < 0.4:
        kinds.append("cost_volume_confidence")
    kinds.append("disparity")
    keys = pipes.keys_for(kinds)
    inv = [-9999, np.nan, 1e6][int(rng.integers(0, 3))]
    params = {keys[0]: {"matching_cost_method": method, "window_size": w, "subpix": subpix},
              keys[-1]: {"invalid_disparity": inv}}
    pipe = pipes.instantiate(keys, params=params)
    m = pipes.new_machine()
    pipes.check(m, pipe, left, right)
    cfg = pipes.checked_cfg(m, pipe)
    snaps = {}

    def before(ev, mm):
        if ev["kind"] == "disparity":
            snaps["cv_before"] = trace.snapshot(mm, ("left_cv",))["left_cv"]

    def after(ev, mm):
        if ev["kind"] == "disparity":
            snaps["cv_after"] = mm.left_cv
            snaps["disp"] = mm.left_disparity

    trace.Tracer(m, on_before=before, on_after=after)
    pandora.run(m, left, right, cfg)
    if "disp" not in snaps:
        ctx.inconclusive.append("disparity hook never reached")
        return
    tm = snaps["cv_before"].attrs["type_measure"]
    desc = {"pipeline": keys, "method": method, "w": w, "subpix": subpix, "shape": [rows, cols], "grid": use_grid,
            "invalid_disparity": repr(inv)}
    pmin = left["disparity"].sel(band_disp="min").data.astype(np.float32)
    pmax = left["disparity"].sel(band_disp="max").data.astype(np.float32)
    judge(ctx, case, snaps["cv_before"], snaps["cv_after"], snaps["disp"], inv, tm, desc, pmin, pmax)
    ctx.case(["pipe", desc], nontrivial=True)
    ctx.gate("pipeline_disparity_steps")
