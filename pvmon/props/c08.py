"""C08 - right-image products equal the left products of the mirrored problem.

Metamorphic monitor over pairs of recorded executions: run(A, B, [a,b]) and run(B, A, [-b,-a])."""
from __future__ import annotations

import numpy as np

from pvmon import gen, pipes

LEVEL = "exploration"
RULE = (
    "stereo pairs with independent left/right masks, scalar intervals or grids on both sides, mono/multiband, through "
    "random legal pipelines with a validation step ({sad,ssd,census,zncc} x subpix x [cbca] x [confidence steps] x wta "
    "x [refinement] x [median|bilateral] x validation [mc-cnn|sgm]); each pipeline is run on (A,B) and on (B,A) with the "
    "negated, swapped interval and the four product pairs are compared bit for bit; the same pipeline without its "
    "validation step must return an empty right dataset and, when no filling is configured, the same left disparity map. "
    "distinct = (pipeline keys, parameters, mask kinds, interval kind, shape); non-trivial = both runs produce valid and "
    "invalid pixels"
)
ASSUMPTIONS = ["monoband images when cbca is in the pipeline (cbca is documented for monoband images)"]
GATES = {
    "asymmetric_masks": 2, "pipelines_with_aggregation": 1, "pipelines_with_confidence": 1, "pipelines_with_refinement": 1,
    "pipelines_with_filter": 1, "pipelines_with_filling": 1, "grids_on_both_sides": 1, "product_pairs_compared": 40,
    "without_validation_compared": 5, "pipelines_with_multiscale": 1, "second_image_with_bands_in_another_order": 1,

}
VARS = ["disparity_map", "validity_mask", "confidence_measure", "interpolated_coeff"]


def plan(tier, seed):
    n = 8 if tier == "quick" else 16
    return [{"name": f"mirror-{i}", "work": "mirror", "part": i, "n": 6 if tier == "quick" else 65,
             "mode": "B" if i % 4 == 3 else "A", "timeout": 3000} for i in range(n)]


def setup(spec, ctx):
    pipes.register_plugins()


def cases(spec, ctx):
    for i in range(spec["n"]):
        yield {"work": "mirror", "part": spec["part"], "i": i}


def compare_ds(ctx, case, desc, what, a, b):
    """a, b: datasets expected identical."""
    ctx.gate("product_pairs_compared")
    for v in VARS:
        if (v in a) != (v in b):
            ctx.violation("mirror-variable-missing", f"{what}: variable {v} present on one side only", case, situation=v, desc=desc)
            continue
        if v not in a:
            continue
        if v == "confidence_measure":
            na, nb = [str(x) for x in a.coords["indicator"].data], [str(x) for x in b.coords["indicator"].data]
            if na != nb:
                ctx.violation("mirror-band-names", f"{what}: {na} vs {nb}", case, desc=desc)
                continue
        x, y = a[v].data, b[v].data
        if not gen.same(x, y):
            ctx.violation("mirror-product-differs", f"{what}: {v} differs at {int((~((x == y) | ((x != x) & (y != y)))).sum())} "
                          f"elements, e.g. {gen.first_diffs(x, y, 3)}", case, situation=v, desc=desc)


def run_case(case, ctx):
    import pandora

    rng = ctx.rng("mirror", case["part"], case["i"])
    rows, cols = int(rng.integers(7, 24)), int(rng.integers(9, 30))
    nb = 1 if rng.random() < 0.8 else 3
    if case["i"] == 1:
        nb = 3  # directed constructor of the multiband classes (bands of the second image in another order)
    fill = [None, "mc-cnn", "sgm"][int(rng.integers(0, 3))]
    keys, params, info = pipes.random_pipeline(rng, rows, cols, validation=True, filling=fill if fill else False, max_post=3,
                                               allow_cbca=(nb == 1))
    if not fill:
        for k in keys:
            params[k].pop("interpolated_disparity", None)
    if nb == 3:
        params[keys[0]]["band"] = "g"
    tex = gen.TEXTURES[int(rng.integers(0, 5))]
    A, B = gen.stereo_pair(rng, rows, cols, tex, max_shift=3, bands=nb)
    kinds = gen.MASK_KINDS
    mk_a = kinds[int(rng.integers(0, len(kinds)))] if rng.random() < 0.6 else "none"
    mk_b = kinds[int(rng.integers(0, len(kinds)))] if rng.random() < 0.6 else "none"
    ma, mb = gen.mask(rng, rows, cols, mk_a), gen.mask(rng, rows, cols, mk_b)
    use_grid = rng.random() < 0.3 and case["i"] != 0
    if use_grid:
        lo, hi = -int(rng.integers(1, 4)), int(rng.integers(0, 4))
        dA = gen.grids(rng, rows, cols, lo, hi, "random")
        dB = gen.grids(rng, rows, cols, -hi, -lo, "random")
    else:
        a, b = gen.interval(rng, cols, ["neg", "pos", "straddle", "straddle", "point"][int(rng.integers(0, 5))])
        dA, dB = (a, b), None
    desc = {"pipeline": keys, "params": {k: params[k] for k in keys}, "shape": [rows, cols], "bands": nb, "masks": [mk_a, mk_b],
            "grid": use_grid, "disp": [int(np.min(dA[0])), int(np.max(dA[1]))]}
    multiscale = (not use_grid) and (rng.random() < 0.3 or case["i"] == 0)
    if multiscale:
        ms_key = pipes.keys_for([pipes.kind_of(k) for k in keys] + ["multiscale"])[-1]
        keys = keys + [ms_key]
        params[ms_key] = {"multiscale_method": "fixed_zoom_pyramid", "num_scales": 2, "scale_factor": 2, "marge": int(rng.integers(0, 3))}
        a, b = [(-7, 5), (-6, 6), (1, 7), (-5, -1), (-3, 2)][int(rng.integers(0, 5))]
        dA, dB = (a, b), None
        rows, cols = max(rows, 16), max(cols, 20)
        A, B = gen.stereo_pair(rng, rows, cols, tex, max_shift=3, bands=nb)
        # the pyramid fills masked pixels from the valid pixels seen along 8 directions: layouts where a pixel sees no
        # valid pixel at all (almost everything masked) are outside the domain of the multiscale step
        mk_a = mk_a if mk_a in ("none", "sparse", "exotic", "border") else "sparse"
        mk_b = mk_b if mk_b in ("none", "sparse", "exotic", "border") else "none"
        ma, mb = gen.mask(rng, rows, cols, mk_a), gen.mask(rng, rows, cols, mk_b)
        desc.update({"multiscale": True, "masks": [mk_a, mk_b], "disp": [a, b], "shape": [rows, cols], "pipeline": keys})
        for k in keys:
            if params[k].get("filter_method") == "median_for_intervals":
                params[k] = {"filter_method": "median", "filter_size": 3}
    ctx.gate("pipelines_with_multiscale", int(multiscale))
    pipe = pipes.build_pipe(keys, params)
    bands = ["r", "g", "b"] if nb == 3 else None

    # multiband pairs may store the same named bands in another order on the second image; a right dataset assembled by hand
    # may carry its disparity grids without the optional disparity_source attribute
    perm = [2, 0, 1] if (nb == 3 and case["i"] % 2 == 1) else None
    no_src = False
    ctx.gate("second_image_with_bands_in_another_order", int(perm is not None))

    def run(left_im, right_im, lm, rm, ld, rd, p=pipe):
        left = gen.make_dataset(left_im, ld, lm, bands=bands)
        if perm is not None:
            right_im = right_im[perm]
        right = gen.make_dataset(right_im, rd, rm, bands=[bands[k] for k in perm] if perm is not None else bands,
                                 disparity_source="absent" if (no_src and rd is not None) else "auto")
        l, r, _, _ = pipes.check_and_run(p, left, right)
        return l, r

    l1, r1 = run(A, B, ma, mb, dA, dB)
    if use_grid:
        l2, r2 = run(B, A, mb, ma, dB, dA)
    else:
        l2, r2 = run(B, A, mb, ma, (-dA[1], -dA[0]), None)
    compare_ds(ctx, case, desc, "right(A,B) vs left(B,A)", r1, l2)
    compare_ds(ctx, case, desc, "left(A,B) vs right(B,A)", l1, r2)
    kk = [pipes.kind_of(k) for k in keys]
    ctx.gate("asymmetric_masks", int(mk_a != mk_b))
    ctx.gate("pipelines_with_aggregation", int("aggregation" in kk))
    ctx.gate("pipelines_with_confidence", int("cost_volume_confidence" in kk))
    ctx.gate("pipelines_with_refinement", int("refinement" in kk))
    ctx.gate("pipelines_with_filter", int("filter" in kk))
    ctx.gate("pipelines_with_filling", int(bool(fill)))
    ctx.gate("grids_on_both_sides", int(use_grid))
    # without the validation step: empty right dataset; without filling the left disparity map is unchanged
    keys_nv = [k for k in keys if pipes.kind_of(k) != "validation"]
    pipe_nv = pipes.build_pipe(keys_nv, params)
    l3, r3 = run(A, B, ma, mb, dA, dB if use_grid else None, p=pipe_nv)
    ctx.gate("without_validation_compared")
    if len(r3.sizes) != 0 or len(r3.data_vars) != 0:
        ctx.violation("right-dataset-not-empty-without-validation", f"right dataset has {list(r3.data_vars)}", case, desc=desc)
    vkeys = [k for k in keys if pipes.kind_of(k) == "validation"]
    if not fill and len(vkeys) == 1 and keys[-1] == vkeys[0]:
        if not gen.same(l3["disparity_map"].data, l1["disparity_map"].data):
            ctx.violation("cross-check-changed-left-disparity", f"{gen.first_diffs(l3['disparity_map'].data, l1['disparity_map'].data, 3)}",
                          case, desc=desc)
    vm = l1["validity_mask"].data
    ctx.case(["mirror", keys, desc["params"], [rows, cols], nb, mk_a, mk_b, use_grid],
             nontrivial=bool(((vm & 0b1111000011) == 0).any() and ((vm & 0b1111000011) != 0).any()))
    if ctx.evaluations <= 2:
        ctx.sample({"case": desc})
