"""C12 - confidence bands follow their definitions, bracket the winner, only add bands.

Reference model (formulas of cost_volume_confidence.rst with an epsilon bracket on every threshold
comparison) on the datasets captured around every confidence step; metamorphic relation: the same
pipeline without the confidence steps gives the same disparity map and flags."""
from __future__ import annotations

import numpy as np

from pvmon import gen, pipes, trace
from pvmon.refs import confidence as ref

LEVEL = "exploration"
RULE = (
    "synthetic cost volumes 1x2x2..20x28x17 (quantised and float costs, NaN holes, ties, min and max type, >= 2 "
    "distinct finite costs) x eta_max {0.1,0.3,0.7,0.99} x eta_step {0.01,0.1,0.25} x thresholds {0,0.5,0.9,1.0} "
    "through the four confidence classes; pipelines with 0-4 confidence steps in random order and with suffixes, "
    "compared with the same pipeline without them, with and without a later median_for_intervals regularisation. "
    "distinct = (method, parameters, type, shape, NaN kind | pipeline); non-trivial = band not constant"
)
ASSUMPTIONS = [
    "a disparity whose cost is NaN is don't-care for the counts (the statement does not say whether NaN is 'within "
    "eta'); all-NaN pixels are not judged; risk formulas are compared on NaN-free curves and integer-sampled volumes",
    "threshold comparisons are judged with a bracket of 4 float32 ulps",
    "'best' = minimum for min-type and maximum for max-type measures, as the statement says",
]
GATES = {
    "constant_ambiguity_volume": 1, "volume_scaled_by_2_to_the_minus_30_compared": 3, "volume_spanning_two_blocks_of_100": 2, "risk_on_a_volume_spanning_two_blocks_of_100": 1, "ambiguity_differs_on_less_than_1_percent_of_the_pixels": 1, "threshold_1": 1, "best_at_first_or_last_disparity": 1,
    "two_steps_same_method_different_suffix": 1, "same_configuration_run_twice": 3, "confidence_step_whose_suffix_contains_a_dot": 1, "max_type_volume": 3, "pipelines_compared_with_and_without": 5,
    "regularisation_quantile_1": 1, "regularised_interval_bounds_after_ambiguity": 1, "regularisation_kernel_size_1": 1, "pixels_judged": 20000,
}
EPS = 4 * 1.2e-7
NAMES = {
    "std_intensity": ["intensity_std"], "ambiguity": ["ambiguity"], "risk": ["risk_max", "risk_min"],
    "interval_bounds": ["interval_bounds_inf", "interval_bounds_sup"],
}


def plan(tier, seed):
    specs = []
    n = 6 if tier == "quick" else 14
    for i in range(n):
        specs.append({"name": f"synth-{i}", "work": "synth", "part": i, "n": 25 if tier == "quick" else 290,
                      "mode": "B" if i % 2 else "A", "timeout": 3000})
    n = 2 if tier == "quick" else 8
    for i in range(n):
        specs.append({"name": f"pipe-{i}", "work": "pipe", "part": i, "n": 20 if tier == "quick" else 125,
                      "mode": "B" if i % 2 else "A", "timeout": 3000})
    return specs


def setup(spec, ctx):
    pipes.register_plugins()


def cases(spec, ctx):
    for i in range(spec["n"]):
        yield {"work": spec["work"], "part": spec["part"], "i": i}


def expected_names(method, sfx):
    return ["confidence_from_" + n + sfx for n in NAMES[method]]


def judge_step(ctx, case, desc, method, p, sfx, cv_b, cv_a, img_left):
    """One confidence step: cv_b / cv_a cost-volume datasets before / after."""
    costs = cv_b["cost_volume"].data
    if not gen.same(cv_a["cost_volume"].data, costs):
        ctx.violation("cost-volume-changed-by-confidence-step", f"{method}: {gen.first_diffs(costs, cv_a['cost_volume'].data, 3)}", case, desc=desc)
    old = list(cv_b.coords["indicator"].data) if "confidence_measure" in cv_b else []
    new = list(cv_a.coords["indicator"].data) if "confidence_measure" in cv_a else []
    exp_new = old + expected_names(method, sfx)
    if new != exp_new:
        ctx.violation("band-names", f"{method}{sfx}: bands {new}, expected {exp_new}", case, situation="suffix" if sfx else "plain", desc=desc)
        return
    if old and not gen.same(cv_a["confidence_measure"].data[:, :, :len(old)], cv_b["confidence_measure"].data):
        ctx.violation("existing-band-changed", f"{method}{sfx}: one of {old} changed", case, desc=desc)
    bands = {n: cv_a["confidence_measure"].data[:, :, len(old) + i] for i, n in enumerate(NAMES[method])}
    tm = cv_b.attrs["type_measure"]
    disps = cv_b.coords["disp"].data
    H, W, D = costs.shape
    ctx.gate("pixels_judged", H * W)
    finite_vals = costs[~np.isnan(costs)]
    if finite_vals.size == 0 or finite_vals.min() == finite_vals.max():
        ctx.ood()
        return
    ctx.gate("max_type_volume", int(tm == "max"))
    if method == "std_intensity":
        w = int(cv_b.attrs["window_size"])
        band_name = cv_b.attrs.get("band_correl")
        im = img_left["im"].data if img_left["im"].ndim == 2 else img_left["im"].data[list(img_left.coords["band_im"].data).index(band_name)]
        exp = ref.std_window(im, w)
        got = bands["intensity_std"]
        bad = ~((np.isnan(exp) & np.isnan(got)) | (np.abs(got - exp) <= 1e-4 * np.maximum(1, np.abs(exp)) + 2e-3 * np.sqrt(np.maximum(np.abs(im).max(), 1))))
        if bad.any():
            i = np.argwhere(bad)[0]
            ctx.violation("std-intensity", f"pixel {i.tolist()}: band {got[tuple(i)]!r}, window std {exp[tuple(i)]!r}", case, desc=desc)
        return
    if method == "ambiguity":
        low, high, n_nan, all_nan, n_eta = ref.ambiguity_counts(costs, tm, p["eta_max"], p["eta_step"], EPS)
        got = bands["ambiguity"].astype(np.float64)
        judged = ~all_nan
        if not p["normalization"]:
            cnt = 1.0 - got
            bad = judged & ((cnt < low - 1e-3) | (cnt > high + 1e-3))
            if bad.any():
                i = np.argwhere(bad)[0]
                ctx.violation(
                    "ambiguity-count",
                    f"pixel {i.tolist()} costs {costs[tuple(i)].tolist()} [{tm}] eta_max={p['eta_max']} step={p['eta_step']}: 1-band = "
                    f"{cnt[tuple(i)]}, reference count in [{low[tuple(i)]},{high[tuple(i)]}]", case,
                    situation=f"{tm}-type" + ("-with-nan" if n_nan[tuple(i)] else ""), desc=desc)
        else:
            if not np.isfinite(got).all() or (got < -1e-6).any() or (got > 1 + 1e-6).any():
                const = bool(np.all(low[judged] == low[judged].flat[0])) if judged.any() else True
                ctx.violation("normalised-ambiguity-not-finite-in-0-1",
                              f"band min {np.nanmin(got) if np.isfinite(got).any() else 'nan'}, max {np.nanmax(got) if np.isfinite(got).any() else 'nan'}, "
                              f"non-finite {int((~np.isfinite(got)).sum())}/{got.size}", case,
                              situation="constant-count" if const else "other", desc=desc)
            else:
                # order preservation w.r.t. the count: a strictly larger count cannot give a larger confidence
                exact = judged & (n_nan == 0) & (low == high)
                if exact.sum() > 1:
                    c, g = low[exact], got[exact]
                    o = np.argsort(c, kind="stable")
                    cs, gs = c[o], g[o]
                    inc = (np.diff(cs) > 0) & (np.diff(gs) > 1e-6)
                    if inc.any():
                        k = int(np.argmax(inc))
                        ctx.violation("normalised-ambiguity-order", f"count {cs[k]} -> band {gs[k]}, count {cs[k + 1]} -> band {gs[k + 1]}", case,
                                      situation=f"{tm}-type", desc=desc)
                    # exact percentile normalisation on volumes without NaN and without borderline comparisons
                    if exact.all() and not all_nan.any():
                        amb = low.copy()
                        pmin, pmax = np.percentile(amb, 1.0), np.percentile(amb, 99.0)
                        cl = np.clip(amb, pmin, pmax)
                        if cl.max() > cl.min():
                            expn = 1 - (cl - cl.min()) / (cl.max() - cl.min())
                            if np.abs(expn - got).max() > 1e-5:
                                i = np.unravel_index(np.argmax(np.abs(expn - got)), got.shape)
                                ctx.violation("normalised-ambiguity-value", f"pixel {list(i)}: band {got[i]}, reference {expn[i]}", case,
                                              situation=f"{tm}-type", desc=desc)
        if judged.any() and p["normalization"]:
            vals, counts = np.unique(low[judged], return_counts=True)
            ctx.gate("ambiguity_differs_on_less_than_1_percent_of_the_pixels",
                     int(len(vals) > 1 and (counts.sum() - counts.max()) < 0.01 * counts.sum()))
        ctx.gate("constant_ambiguity_volume", int(judged.any() and bool(np.all(low[judged] == low[judged].flat[0]) and np.all(high[judged] == high[judged].flat[0]))))
        return
    if method == "risk":
        rmax, rmin = bands["risk_max"].astype(np.float64), bands["risk_min"].astype(np.float64)
        some = ~np.isnan(costs).all(axis=2)
        bad = some & ~((rmin >= -1e-5) & (rmin <= rmax + 1e-5) & np.isfinite(rmax))
        if bad.any():
            i = np.argwhere(bad)[0]
            ctx.violation("risk-order", f"pixel {i.tolist()}: risk_min {rmin[tuple(i)]}, risk_max {rmax[tuple(i)]}", case, desc=desc)
        if cv_b.attrs.get("subpixel", 1) == 1:
            r = ref.risk(costs, tm, p["eta_max"], p["eta_step"], EPS)
            j = ~np.isnan(r["max_lo"])
            bad = j & ((rmax < r["max_lo"] - 1e-4) | (rmax > r["max_hi"] + 1e-4))
            if bad.any():
                i = np.argwhere(bad)[0]
                ctx.violation("risk-max", f"pixel {i.tolist()} costs {costs[tuple(i)].tolist()} [{tm}]: risk_max {rmax[tuple(i)]}, reference "
                              f"[{r['max_lo'][tuple(i)]},{r['max_hi'][tuple(i)]}]", case, situation=f"{tm}-type", desc=desc)
            bad = j & ((rmin < r["min_lo"] - 1e-4) | (rmin > r["min_hi"] + 1e-4))
            if bad.any():
                i = np.argwhere(bad)[0]
                ctx.violation("risk-min", f"pixel {i.tolist()} costs {costs[tuple(i)].tolist()} [{tm}]: risk_min {rmin[tuple(i)]}, reference "
                              f"[{r['min_lo'][tuple(i)]},{r['min_hi'][tuple(i)]}]", case, situation=f"{tm}-type", desc=desc)
        return
    if method == "interval_bounds":
        inf, sup = bands["interval_bounds_inf"].astype(np.float64), bands["interval_bounds_sup"].astype(np.float64)
        some = ~np.isnan(costs).all(axis=2)
        # bracket the winner
        fin = ~np.isnan(costs)
        filled = np.where(fin, costs, np.inf if tm == "min" else -np.inf)
        win = disps[filled.argmin(axis=2) if tm == "min" else filled.argmax(axis=2)]
        if not p.get("regularization"):
            bad = some & ~((inf <= win + 1e-6) & (win <= sup + 1e-6))
            if bad.any():
                i = np.argwhere(bad)[0]
                ctx.violation("winner-outside-interval-bounds", f"pixel {i.tolist()}: [{inf[tuple(i)]},{sup[tuple(i)]}] does not contain the winner "
                              f"{win[tuple(i)]} (costs {costs[tuple(i)].tolist()}, {tm})", case, situation=f"{tm}-type", desc=desc)
            e = ref.interval_bounds(costs, disps, tm, p["possibility_threshold"], EPS)
            bad = some & ((inf < e[0] - 1e-6) | (inf > e[1] + 1e-6) | (sup < e[2] - 1e-6) | (sup > e[3] + 1e-6))
            if bad.any():
                i = np.argwhere(bad)[0]
                ctx.violation("interval-bounds-value",
                              f"pixel {i.tolist()} costs {costs[tuple(i)].tolist()} [{tm}] threshold {p['possibility_threshold']}: "
                              f"[{inf[tuple(i)]},{sup[tuple(i)]}], reference inf in [{e[0][tuple(i)]},{e[1][tuple(i)]}], sup in "
                              f"[{e[2][tuple(i)]},{e[3][tuple(i)]}]", case, situation=f"{tm}-type", desc=desc)
            best_idx = filled.argmin(axis=2) if tm == "min" else filled.argmax(axis=2)
            ctx.gate("best_at_first_or_last_disparity", int(((best_idx == 0) | (best_idx == D - 1))[some].any()))
            ctx.gate("threshold_1", int(p["possibility_threshold"] == 1.0))
        return


def run_case(case, ctx):
    from pandora import cost_volume_confidence as cvc

    if case["work"] == "pipe":
        return _pipe(case, ctx)
    rng = ctx.rng("synth", case["part"], case["i"])
    H, W = int(rng.integers(1, 20)), int(rng.integers(2, 28))
    D = int(rng.choice([2, 3, 5, 9, 17]))
    tall = case["i"] % 12 in (3, 9)
    if tall:
        # volumes spanning more than one block of 100 rows / columns (the kernels of other steps work in such blocks)
        H, W = (int(rng.integers(101, 131)), int(rng.integers(3, 9))) if case["i"] % 12 == 3 else (int(rng.integers(3, 9)), int(rng.integers(101, 131)))
        D = int(rng.choice([3, 5]))
    tm = ["min", "max"][int(rng.integers(0, 2))]
    nan_kind = ["none", "holes", "mixed", "none"][int(rng.integers(0, 4))]
    floaty = rng.random() < 0.5
    costs, _, _ = gen.synth_costs(rng, H, W, D, levels=int(rng.choice([2, 4, 8])), nan_kind=nan_kind, floaty=floaty)
    if case["i"] % 12 == 0:
        # every pixel the same curve: the normalisation denominator is 0
        costs[:] = costs[0, 0]
        if np.isnan(costs[0, 0]).all() or np.nanmin(costs[0, 0]) == np.nanmax(costs[0, 0]):
            costs[:, :, 0], costs[:, :, 1] = 0.0, 3.0
    nearly_constant = case["i"] % 12 == 6
    if nearly_constant:
        # every pixel the same curve but a handful (< 1 % of the pixels): the 1st and 99th percentiles of the ambiguity coincide
        H, W = int(rng.integers(15, 20)), int(rng.integers(20, 28))
        costs = np.empty((H, W, D), np.float32)
        costs[:] = np.linspace(0.0, 8.0, D, dtype=np.float32)
        other = np.full(D, 4.0, np.float32)
        other[int(rng.integers(0, D))] = 3.5 if tm == "min" else 4.5
        for _ in range(int(rng.integers(1, 3))):
            costs[int(rng.integers(0, H)), int(rng.integers(0, W))] = other
    subpix = 1 if rng.random() < 0.7 else 2
    disps = int(rng.integers(-4, 2)) + np.arange(D) / float(subpix)
    w = int(rng.choice([1, 3]))
    cv = gen.make_cv(costs, disps, tm, window_size=w, subpix=subpix)
    img = gen.make_dataset(rng.integers(0, 256, (H, W)).astype(np.float32), (int(np.floor(disps[0])), int(np.ceil(disps[-1]))))
    method = ["ambiguity", "risk", "interval_bounds", "std_intensity", "ambiguity"][int(rng.integers(0, 5))]
    if nearly_constant:
        method = "ambiguity"
    if tall:
        method = ["risk", "ambiguity", "interval_bounds", "risk"][(case["i"] // 12 + case["part"]) % 4]
        ctx.gate("volume_spanning_two_blocks_of_100", 1)
        ctx.gate("risk_on_a_volume_spanning_two_blocks_of_100", int(method == "risk"))
    if method == "std_intensity" and (H < w or W < w):
        w = 1
        cv.attrs["window_size"], cv.attrs["offset_row_col"] = 1, 0
    p = {"confidence_method": method}
    if method in ("ambiguity", "risk"):
        p["eta_max"] = float(rng.choice([0.1, 0.3, 0.7, 0.99]))
        p["eta_step"] = float(rng.choice([0.01, 0.1, 0.25]))
    if method == "ambiguity":
        p["normalization"] = bool(rng.integers(0, 2)) or nearly_constant
    if method == "interval_bounds":
        p["possibility_threshold"] = float(rng.choice([0.0, 0.5, 0.9, 1.0]))
    sfx = ["", ".x", ".2"][int(rng.integers(0, 3))]
    p["indicator"] = sfx
    # an existing band must survive
    if rng.random() < 0.5:
        cv.coords["indicator"] = ["confidence_from_something"]
        import xarray as xr
        cv["confidence_measure"] = xr.DataArray(rng.random((H, W, 1)).astype(np.float32), dims=["row", "col", "indicator"])
    desc = {"method": method, "params": p, "type": tm, "shape": [H, W, D], "nan_kind": nan_kind, "floaty": floaty, "subpix": subpix}
    before = gen.deep_copy_ds(cv)
    step = cvc.AbstractCostVolumeConfidence(**p)
    _, cv_after = step.confidence_prediction(None, img, img, cv)
    judge_step(ctx, case, desc, method, step.cfg, sfx, before, cv_after, img)
    if method in ("ambiguity", "risk") and case["i"] % 3 == 2 and np.isfinite(costs).any():
        # the definitions only use costs normalised by their global range: the same volume scaled by 2^-30 (an exact operation
        # in float32) must give the same bands, bit for bit
        cv_s = gen.deep_copy_ds(before)
        cv_s["cost_volume"].data[:] = before["cost_volume"].data * np.float32(2.0 ** -30)
        _, cv_s_after = cvc.AbstractCostVolumeConfidence(**p).confidence_prediction(None, img, img, cv_s)
        ctx.gate("volume_scaled_by_2_to_the_minus_30_compared")
        a_, b_ = cv_after["confidence_measure"].data, cv_s_after["confidence_measure"].data
        if a_.shape != b_.shape or not gen.same(a_, b_):
            ctx.violation("bands-depend-on-the-scale-of-the-costs", f"{method}: {gen.first_diffs(a_, b_, 3) if a_.shape == b_.shape else 'shapes differ'} "
                          "(a = costs as given, b = costs times 2^-30)", case, situation=method, desc=desc)
    nb = cv_after["confidence_measure"].data[:, :, -1] if "confidence_measure" in cv_after else np.zeros((1, 1))
    ctx.case([method, p, tm, [H, W, D], nan_kind, floaty], nontrivial=bool(np.nanmax(nb) > np.nanmin(nb)) if np.isfinite(nb).any() else False)
    if ctx.evaluations <= 2:
        ctx.sample({"case": desc, "band_min": float(np.nanmin(nb)) if np.isfinite(nb).any() else None,
                    "band_max": float(np.nanmax(nb)) if np.isfinite(nb).any() else None})


def _pipe(case, ctx):
    import pandora

    rng = ctx.rng("pipe", case["part"], case["i"])
    rows, cols = int(rng.integers(7, 22)), int(rng.integers(8, 28))
    method = ["sad", "census", "zncc"][int(rng.integers(0, 3))]
    w = 3
    subpix = int(rng.choice([1, 2]))
    n_conf = int(rng.integers(1, 5))
    conf_methods = [["std_intensity", "ambiguity", "risk", "interval_bounds"][int(x)] for x in rng.integers(0, 4, n_conf)]
    directed = case["i"] < 3  # directed constructor of the gating classes: ambiguity, then a regularised interval_bounds
    if directed:
        conf_methods = ["ambiguity", "interval_bounds"] + conf_methods[:1]
    kinds = ["matching_cost"]
    pos_conf = []
    if rng.random() < 0.3:
        kinds.append("aggregation")
    for cm in conf_methods:
        kinds.append("cost_volume_confidence")
        pos_conf.append(len(kinds) - 1)
    kinds.append("disparity")
    post = [["refinement", "filter", "validation"][int(x)] for x in rng.integers(0, 3, int(rng.integers(0, 3)))]
    post = [s for i, s in enumerate(post) if s != "validation" or "validation" not in post[:i]]
    kinds += post
    use_mfi = "interval_bounds" in conf_methods and "ambiguity" in conf_methods and rng.random() < 0.6
    if use_mfi:
        kinds.append("filter")
    style = ["num", "alpha", "dotted", "word"][case["i"] % 4]
    keys = pipes.keys_for(kinds, suffix_first={"cost_volume_confidence"} if rng.random() < 0.3 else None, style=style)
    params = {keys[0]: {"matching_cost_method": method, "window_size": w, "subpix": subpix}}
    for k in keys:
        kind = pipes.kind_of(k)
        if kind == "aggregation":
            params[k] = {"aggregation_method": "cbca"}
        elif kind == "disparity":
            params[k] = {"disparity_method": "wta"}
        elif kind == "refinement":
            params[k] = {"refinement_method": "vfit"}
        elif kind == "filter":
            params[k] = {"filter_method": "median", "filter_size": 3}
        elif kind == "validation":
            params[k] = {"validation_method": "cross_checking_accurate"}
    sfx_of = {}
    for pos, cm in zip(pos_conf, conf_methods):
        k = keys[pos]
        p = {"confidence_method": cm}
        if cm in ("ambiguity", "risk"):
            p["eta_max"], p["eta_step"] = float(rng.choice([0.3, 0.7])), float(rng.choice([0.1, 0.05]))
        params[k] = p
        sfx_of[k] = ("." + k.split(".", 1)[1]) if "." in k else ""  # the documentation: stepname.xxx, xxx any string
    same_twice = len(conf_methods) != len(set(conf_methods))
    # an interval_bounds step placed after an ambiguity step may be regularised with that ambiguity band
    amb_seen = None
    for pos, cm in zip(pos_conf, conf_methods):
        k = keys[pos]
        if cm == "ambiguity":
            amb_seen = k
        elif cm == "interval_bounds" and amb_seen is not None and (directed or rng.random() < 0.7):
            params[k].update({"regularization": True, "ambiguity_indicator": sfx_of[amb_seen].lstrip("."),
                              "ambiguity_kernel_size": [1, 3, 5][case["i"]] if directed else int(rng.choice([1, 3, 5])),
                              "vertical_depth": int(rng.choice([0, 1, 2])),
                              "ambiguity_threshold": float(rng.choice([0.3, 0.6, 0.9]))})
            ctx.gate("regularised_interval_bounds_after_ambiguity")
            ctx.gate("regularisation_kernel_size_1", int(params[k]["ambiguity_kernel_size"] == 1))
    if use_mfi:
        ibk = [keys[p_] for p_, cm in zip(pos_conf, conf_methods) if cm == "interval_bounds"][-1]
        ambk = [keys[p_] for p_, cm in zip(pos_conf, conf_methods) if cm == "ambiguity"][-1]
        params[keys[-1]] = {"filter_method": "median_for_intervals", "filter_size": 3, "regularization": True,
                            "interval_indicator": sfx_of[ibk].lstrip("."), "ambiguity_indicator": sfx_of[ambk].lstrip("."),
                            "quantile_regularization": 1.0, "ambiguity_threshold": float(rng.choice([0.3, 0.6, 0.9]))}
    tex = gen.TEXTURES[int(rng.integers(0, 5))]
    l, r = gen.stereo_pair(rng, rows, cols, tex, max_shift=3)
    lm = gen.mask(rng, rows, cols, gen.MASK_KINDS[int(rng.integers(0, 9))]) if rng.random() < 0.4 else None
    a, b = gen.interval(rng, cols, ["neg", "pos", "straddle", "straddle"][int(rng.integers(0, 4))])
    if a == b:
        b = a + 2
    left = gen.make_dataset(l, (a, b), lm)
    right = gen.make_dataset(r, None, None)
    pipe = pipes.build_pipe(keys, params)
    desc = {"pipeline": keys, "params": {k: params[k] for k in keys}, "shape": [rows, cols], "disp": [a, b]}
    m = pipes.new_machine()
    pipes.check(m, pipe, left, right)
    cfg = pipes.checked_cfg(m, pipe)
    st = {}

    def before(ev, mm):
        if ev["kind"] == "cost_volume_confidence":
            st["b"] = trace.snapshot(mm, ("left_cv",))["left_cv"]
        if ev["kind"] == "filter" and cfg["pipeline"][ev["step_key"]].get("filter_method") == "median_for_intervals":
            st["fb"] = trace.snapshot(mm, ("left_disparity",))["left_disparity"]

    def after(ev, mm):
        if ev["kind"] == "cost_volume_confidence":
            k = ev["step_key"]
            p = cfg["pipeline"][k]
            judge_step(ctx, case, dict(desc, step=k), p["confidence_method"], p, sfx_of[k], st["b"], mm.left_cv, mm.left_img)
        if ev["kind"] == "filter" and "fb" in st and cfg["pipeline"][ev["step_key"]].get("filter_method") == "median_for_intervals":
            p = cfg["pipeline"][ev["step_key"]]
            fb, fa = st.pop("fb"), mm.left_disparity
            names = list(fb.coords["indicator"].data)
            s_ = p["interval_indicator"]
            ni = "confidence_from_interval_bounds_inf" + ("." + s_ if s_ else "")
            ns = "confidence_from_interval_bounds_sup" + ("." + s_ if s_ else "")
            from pandora import filter as flt
            # regularisation with quantile 1 can only widen: compare with the same filter without regularisation
            plain = gen.deep_copy_ds(fb)
            p2 = dict(p, regularization=False)
            flt.AbstractFilter(cfg=p2, image_shape=(rows, cols), step=1).filter_disparity(plain)
            for nm, sign in ((ni, 1), (ns, -1)):
                a0 = plain["confidence_measure"].sel(indicator=nm).data
                a1 = fa["confidence_measure"].sel(indicator=nm).data
                ok = np.isnan(a0) | np.isnan(a1) | (sign * (a0 - a1) >= -1e-6)
                if not ok.all():
                    i = np.argwhere(~ok)[0]
                    ctx.violation("regularisation-narrowed-an-interval", f"band {nm} pixel {i.tolist()}: {a0[tuple(i)]} -> {a1[tuple(i)]}", case, desc=desc)
            ctx.gate("regularisation_quantile_1")

    trace.Tracer(m, on_before=before, on_after=after)
    lres, rres = pandora.run(m, gen.deep_copy_ds(left), gen.deep_copy_ds(right), cfg)
    # final band names in step order
    exp_names = []
    for pos, cm in zip(pos_conf, conf_methods):
        exp_names += expected_names(cm, sfx_of[keys[pos]])
    got_names = [n for n in list(lres.coords["indicator"].data)] if "confidence_measure" in lres else []
    got_conf = [n for n in got_names if n != "confidence_from_left_right_consistency"]
    if got_conf != exp_names:
        ctx.violation("band-names", f"final bands {got_names}, expected {exp_names} (+ consistency band)", case,
                      situation="suffix" if any(sfx_of.values()) else "plain", desc=desc)
    if case["i"] % 2 == 0 and got_conf == exp_names:
        # the checked configuration is run a second time (documented usage: check once, run any number of times)
        m2 = pipes.new_machine()
        pipes.check(m2, pipe, left, right)
        lres2, _ = pandora.run(m2, gen.deep_copy_ds(left), gen.deep_copy_ds(right), cfg)
        names2 = [str(n) for n in lres2.coords["indicator"].data] if "confidence_measure" in lres2 else []
        ctx.gate("same_configuration_run_twice")
        if names2 != [str(n) for n in got_names]:
            ctx.violation("band-names", f"second run of the same configuration: bands {names2}, first run {got_names}", case,
                          situation="second-run-same-configuration", desc=desc)
        elif names2 and not gen.same(lres2["confidence_measure"].data, lres["confidence_measure"].data):
            ctx.violation("bands-differ-on-second-run", "confidence bands of the second run of the same configuration differ", case, desc=desc)
    ctx.gate("two_steps_same_method_different_suffix", int(same_twice))
    ctx.gate("confidence_step_whose_suffix_contains_a_dot", int(any(k.count(".") >= 2 for k in keys if pipes.kind_of(k) == "cost_volume_confidence")))
    # the same pipeline without the confidence steps (and without the interval filter, which only touches bands)
    keys2 = [k for k in keys if pipes.kind_of(k) != "cost_volume_confidence" and params[k].get("filter_method") != "median_for_intervals"]
    pipe2 = pipes.build_pipe(keys2, params)
    m2 = pipes.new_machine()
    pipes.check(m2, pipe2, left, right)
    l2, r2 = pandora.run(m2, gen.deep_copy_ds(left), gen.deep_copy_ds(right), pipes.checked_cfg(m2, pipe2))
    ctx.gate("pipelines_compared_with_and_without")
    for nm in ("disparity_map", "validity_mask"):
        a_, b_ = lres[nm].data, l2[nm].data
        if nm == "validity_mask":
            a_ = a_.astype(np.int64) & ~2048  # bit 11 is owned by the interval regularisation
            b_ = b_.astype(np.int64)
        if not gen.same(a_, b_):
            ctx.violation("confidence-steps-changed-the-result", f"{nm} differs from the pipeline without confidence steps: "
                          f"{gen.first_diffs(b_, a_, 3)} (a=without)", case, desc=desc)
    ctx.case(["pipe", keys, desc["params"], [rows, cols], [a, b]], nontrivial=True)
