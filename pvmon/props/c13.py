"""C13 - results are local: a pixel depends on its neighbourhood, not on its position.

Metamorphic monitor: whole-image run vs runs on crops (every offset parity) compared bit for bit on
the pixels whose dependency cone lies inside the crop; vertical-flip relation."""
from __future__ import annotations

import numpy as np

from pvmon import gen, pipes

LEVEL = "exploration"
RULE = (
    "integer-radiometry scenes 40x60..70x110 with masks, local pipelines (matching cost {sad, ssd, census, zncc}, cbca on "
    "sad/ssd/census, wta, refinement, median, bilateral with odd width, cross-checking) with subpix 1/2/4 and intervals "
    "up to +-5; 5 crops per scene at even/odd row and column offsets, sizes down to cone + 4, coordinates carried as a ROI "
    "read carries them; the flip relation on every scene. distinct = (pipeline, parameters, scene shape, crop); "
    "non-trivial = at least 20 cone-interior pixels compared and a fractional or cross-checked pipeline"
)
ASSUMPTIONS = [
    "cone (conservative): rows = window radius + [cbca: 2*distance + 2] + filter radii + 1; columns = that + max|d|, and "
    "with cross-checking twice that plus the row radius",
    "zncc + cbca is excluded from the bit-identical claim (float32 integral images of non-integer costs)",
    "bilateral: sigma_space giving an odd width not larger than the crop",
    "ssd + cbca: radiometry reduced to 0..15 so that the float32 integral images of cbca stay exact (otherwise their "
    "rounding legitimately depends on the origin of the image)",
]
GATES = {
    "odd_column_offset_with_half_integer_disparities": 1, "even_column_offset_with_half_integer_disparities": 1,
    "crop_touching_an_image_side": 1, "bilateral_filter_with_an_invalid_area_larger_than_a_chunk": 1, "cbca_distance_1_on_masked_images": 1, "subpix_2": 1, "subpix_4": 1, "cross_checking": 2, "flip_relation_checked": 5, "scene_spanning_two_internal_blocks": 4,
    "interior_pixels_compared": 5000,
}


def plan(tier, seed):
    n = 8 if tier == "quick" else 16
    return [{"name": f"loc-{i}", "work": "loc", "part": i, "n": 4 if tier == "quick" else 50,
             "mode": "B" if i % 4 == 3 else "A", "timeout": 3000} for i in range(n)]


def setup(spec, ctx):
    pipes.register_plugins()


def cases(spec, ctx):
    for i in range(spec["n"]):
        yield {"work": "loc", "part": spec["part"], "i": i}


def local_pipeline(rng, force_cb=None):
    method = ["sad", "ssd", "census", "zncc"][int(rng.integers(0, 4))]
    if force_cb:
        method = ["sad", "census"][int(rng.integers(0, 2))]
    w = int(rng.choice([3, 5])) if method == "census" else int(rng.choice([1, 3, 5]))
    subpix = int(rng.choice([1, 2, 4]))
    kinds = ["matching_cost"]
    params = [{"matching_cost_method": method, "window_size": w, "subpix": subpix}]
    rad = w // 2
    cb = None
    if method != "zncc" and (rng.random() < 0.35 or force_cb):
        cb = force_cb or int(rng.integers(1, 5))
        kinds.append("aggregation")
        params.append({"aggregation_method": "cbca", "cbca_distance": cb, "cbca_intensity": float(rng.choice([5.0, 30.0]))})
        rad += 2 * cb + 2
    kinds.append("disparity")
    params.append({"disparity_method": "wta", "invalid_disparity": -9999})
    validation = rng.random() < 0.6
    post = []
    for _ in range(int(rng.integers(0, 3))):
        post.append(["refinement", "filter"][int(rng.integers(0, 2))])
    if validation:
        post.insert(int(rng.integers(0, len(post) + 1)), "validation")
    for s in post:
        kinds.append(s)
        if s == "refinement":
            params.append({"refinement_method": ["vfit", "quadratic"][int(rng.integers(0, 2))]})
        elif s == "filter":
            if rng.random() < 0.5:
                fs = int(rng.choice([3, 5]))
                params.append({"filter_method": "median", "filter_size": fs})
                rad += fs // 2
            else:
                ss = float(rng.choice([0.7, 1.4]))  # widths 3 and 5
                params.append({"filter_method": "bilateral", "sigma_space": ss, "sigma_color": 2.0})
                rad += int(3 * ss + 1) // 2 + 1
        else:
            params.append({"validation_method": "cross_checking_accurate", "cross_checking_threshold": float(rng.choice([0.0, 1.0]))})
    keys = pipes.keys_for(kinds)
    return keys, dict(zip(keys, params)), rad + 1, subpix, validation


def crop_ds(ds, r0, r1, c0, c1):
    """What a ROI read of the same rasters returns: cropped variables, absolute coordinates kept."""
    out = ds.isel(row=slice(r0, r1), col=slice(c0, c1)).copy(deep=True)
    out.attrs = dict(ds.attrs)
    return out


def run_case(case, ctx):
    rng = ctx.rng("loc", case["part"], case["i"])
    # directed constructor: the smallest legal arm length (cbca_distance 1, then 2) on masked images
    force_cb = [1, 2][case["part"] % 2] if case["i"] == 0 else None
    keys, params, rad, subpix, validation = local_pipeline(rng, force_cb)
    large_invalid = case["i"] == 2
    if large_invalid:
        # directed constructor: a bilateral filter on a wide scene whose left mask holds one large invalid area (the filter
        # works in internal chunks of 50 x 50 windows; a chunk without any valid centre must not shift its neighbours)
        keys = ["matching_cost", "disparity", "filter"]
        params = {"matching_cost": {"matching_cost_method": "sad", "window_size": 3, "subpix": 1},
                  "disparity": {"disparity_method": "wta", "invalid_disparity": -9999},
                  "filter": {"filter_method": "bilateral", "sigma_space": [1.4, 2.0][case["part"] % 2], "sigma_color": 2.0}}
        rad, subpix, validation = 1 + int(3 * params["filter"]["sigma_space"] + 1) // 2 + 1 + 1, 1, False
    dlt = int(rng.integers(1, 6))
    a, b = [(-dlt, dlt), (-dlt, 0), (0, dlt), (-dlt, max(0, dlt - 2)), (-dlt, -1), (1, dlt)][int(rng.integers(0, 6))]
    delta = max(abs(a), abs(b))
    cone_r = rad
    cone_c = rad + delta
    if validation:
        cone_c = 2 * cone_c + rad
    rows = int(rng.integers(2 * cone_r + 12, 2 * cone_r + 34))
    cols = int(rng.integers(2 * cone_c + 14, 2 * cone_c + 46))
    # the steps work in internal blocks of 50 / 100 pixels counted from the origin of the processed array: every
    # other scene spans more than one block in one direction, and its crops start inside the first block
    big = case["i"] % 2 == 1
    if big:
        if rng.random() < 0.5:
            rows = max(rows, int(rng.integers(104, 131)))
        else:
            cols = max(cols, int(rng.integers(104, 141)))
    if large_invalid:
        rows, cols = int(rng.integers(64, 72)), int(rng.integers(200, 224))
    tex = ["random", "lowtex", "patches", "steps"][int(rng.integers(0, 4))]
    L, R = gen.stereo_pair(rng, rows, cols, tex, max_shift=min(delta, 3), noise=2)
    L, R = np.clip(L, 0, 255), np.clip(R, 0, 255)
    if params[keys[0]]["matching_cost_method"] == "ssd" and any(pipes.kind_of(k) == "aggregation" for k in keys):
        # cbca accumulates float32 integral images: squared half-/quarter-integer differences stay exactly
        # representable (origin-independent sums) only for a small radiometric range
        L, R = np.floor(L / 16), np.floor(R / 16)
    lm = gen.mask(rng, rows, cols, ["sparse", "exotic", "stripes"][int(rng.integers(0, 3))]) if (rng.random() < 0.4 or force_cb) else None
    rm = gen.mask(rng, rows, cols, ["sparse", "exotic"][int(rng.integers(0, 2))]) if (rng.random() < 0.3 or force_cb) else None
    ctx.gate("cbca_distance_1_on_masked_images", int(force_cb == 1))
    if large_invalid:
        lm = np.zeros((rows, cols), np.int16) if lm is None else lm
        lm[0:60, 48:116] = 2
    ctx.gate("bilateral_filter_with_an_invalid_area_larger_than_a_chunk", int(large_invalid))
    left = gen.make_dataset(L, (a, b), lm)
    right = gen.make_dataset(R, None, rm)
    pipe = pipes.build_pipe(keys, params)
    desc = {"pipeline": keys, "params": {k: params[k] for k in keys}, "shape": [rows, cols], "disp": [a, b], "cone": [cone_r, cone_c],
            "texture": tex}
    lw, rw, _, _ = pipes.check_and_run(pipe, gen.deep_copy_ds(left), gen.deep_copy_ds(right))
    dw, mw = lw["disparity_map"].data, lw["validity_mask"].data
    halfish = bool(subpix > 1 and (np.abs(dw * 2 - np.rint(dw * 2)) < 1e-6)[(np.abs(dw - np.rint(dw)) > 0.25)].any()) if subpix > 1 else False
    total = 0
    for j in range(5):
        hmin, wmin = 2 * cone_r + 4, 2 * cone_c + 4
        h = int(rng.integers(hmin, rows + 1))
        w_ = int(rng.integers(wmin, cols + 1))
        r0 = int(rng.integers(0, rows - h + 1))
        c0 = int(rng.integers(0, cols - w_ + 1))
        if j == 0:
            c0 = min(c0 | 1, cols - w_)       # odd column offset
        elif j == 1:
            c0 = c0 & ~1                      # even column offset
        elif j == 2:
            r0, c0 = 0, 0                     # crop touching two image sides
        elif j == 3 and large_invalid:
            c0, w_ = 118, cols - 118          # a tile on the right of the large invalid area
        lc, rc = crop_ds(left, r0, r0 + h, c0, c0 + w_), crop_ds(right, r0, r0 + h, c0, c0 + w_)
        lcr, _, _, _ = pipes.check_and_run(pipe, lc, rc)
        dc, mc = lcr["disparity_map"].data, lcr["validity_mask"].data
        ys = slice(cone_r, h - cone_r)
        xs = slice(cone_c, w_ - cone_c)
        A_d, A_m = dc[ys, xs], mc[ys, xs]
        B_d = dw[r0 + cone_r:r0 + h - cone_r, c0 + cone_c:c0 + w_ - cone_c]
        B_m = mw[r0 + cone_r:r0 + h - cone_r, c0 + cone_c:c0 + w_ - cone_c]
        n = int(A_d.size)
        total += n
        ctx.gate("interior_pixels_compared", n)
        ctx.gate("crop_touching_an_image_side", int(r0 == 0 or c0 == 0 or r0 + h == rows or c0 + w_ == cols))
        if halfish:
            ctx.gate("odd_column_offset_with_half_integer_disparities", int(c0 % 2 == 1))
            ctx.gate("even_column_offset_with_half_integer_disparities", int(c0 % 2 == 0))
        if list(lcr.coords["col"].data[[0, -1]]) != [c0, c0 + w_ - 1] or list(lcr.coords["row"].data[[0, -1]]) != [r0, r0 + h - 1]:
            ctx.violation("crop-coordinates", f"crop rows {r0}.. cols {c0}..: output coordinates "
                          f"{lcr.coords['row'].data[[0, -1]].tolist()} / {lcr.coords['col'].data[[0, -1]].tolist()}", case, desc=desc)
        for nm, x, y in (("disparity_map", A_d, B_d), ("validity_mask", A_m, B_m)):
            if not gen.same(x, y):
                bad = ~((x == y) | ((x != x) & (y != y)))
                i = np.argwhere(bad)[0]
                ctx.violation(
                    "crop-differs-from-whole-image",
                    f"{nm}: {int(bad.sum())}/{n} cone-interior pixels differ for the crop rows {r0}..{r0 + h - 1}, cols {c0}..{c0 + w_ - 1}; "
                    f"pixel (abs {r0 + cone_r + i[0]},{c0 + cone_c + i[1]}): crop {x[tuple(i)]!r}, whole image {y[tuple(i)]!r}", case,
                    situation=f"{nm}:{'odd' if c0 % 2 else 'even'}-column-offset", desc=dict(desc, crop=[r0, h, c0, w_]))
    # vertical flip
    lf = gen.make_dataset(L[::-1].copy(), (a, b), None if lm is None else lm[::-1].copy())
    rf = gen.make_dataset(R[::-1].copy(), None, None if rm is None else rm[::-1].copy())
    lfr, _, _, _ = pipes.check_and_run(pipe, lf, rf)
    ctx.gate("flip_relation_checked")
    has_bilateral = any(params[k].get("filter_method") == "bilateral" for k in keys)
    kinds_seq = [pipes.kind_of(k) for k in keys]
    bilateral_before_validation = has_bilateral and "validation" in kinds_seq and any(
        params[k].get("filter_method") == "bilateral" and i_ < kinds_seq.index("validation") for i_, k in enumerate(keys))
    for nm in ("disparity_map", "validity_mask"):
        x, y = lfr[nm].data[::-1], lw[nm].data
        if nm == "validity_mask" and bilateral_before_validation:
            # the flipped bilateral sums differ by rounding (see below); a cross-check after it compares |dL + dR| with its threshold
            # exactly, so bits 8 / 9 may legitimately differ: the other bits are compared
            x, y = x & ~np.uint16(256 | 512), y & ~np.uint16(256 | 512)
        if has_bilateral and nm == "disparity_map":
            # the weighted sums of the bilateral window are accumulated in the reverse row order: equal up to rounding
            same = bool(np.all(np.isclose(x, y, rtol=1e-5, atol=1e-5) | (np.isnan(x) & np.isnan(y))))
        else:
            same = gen.same(x, y)
        if not same:
            ctx.violation("vertical-flip-relation", f"{nm}: {gen.first_diffs(y, x, 3)} (a=original, b=flipped run flipped back)", case,
                          situation=nm, desc=desc)
    ctx.gate("scene_spanning_two_internal_blocks", int(big))
    ctx.gate("subpix_2", int(subpix == 2))
    ctx.gate("subpix_4", int(subpix == 4))
    ctx.gate("cross_checking", int(validation))
    ctx.case(["loc", keys, desc["params"], [rows, cols], [a, b]], nontrivial=total >= 20 and (subpix > 1 or validation))
    if ctx.evaluations <= 2:
        ctx.sample({"case": desc, "interior_pixels_compared": total})
