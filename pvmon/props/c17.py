"""C17 - malformed inputs are refused up front; well-formed inputs never are.

Model: a predicate well_formed() written from the statement, checked in both directions against
check_datasets / check_input_section; faults from a catalogue, alone and in pairs."""
from __future__ import annotations

import copy
import os

import numpy as np
import xarray as xr

from pvmon import gen, pipes, rasters, trace

LEVEL = "exploration"
RULE = (
    "well-formed dataset pairs (mono/multiband, scalar intervals and grids on either side, masks, classif, segm, 1x1.."
    "30x40) and input sections on disk, each mutated by every single fault of a catalogue (datasets: 26 faults on "
    "either side; input sections: 24 faults) and by sampled pairs of faults; acceptance must equal the predicate. "
    "distinct = (base shape/kind, fault set); non-trivial = at least one fault applied or a multiband/grid base"
)
ASSUMPTIONS = [
    "band names are judged only when a band_im coordinate exists (monoband datasets built by the reader have none)",
    "nodata given as a float that is not NaN is outside the documented forms (integer or NaN)",
]
GATES = {
    "every_dataset_fault_refused_on_3_shapes": 1, "every_input_fault_class_seen": 1, "well_formed_multiband_grids_accepted": 1,
    "well_formed_accepted": 20, "malformed_refused": 100, "refusal_before_matching": 3, "checks_on_rewritten_paths": 10,
}

DS_FAULTS = [
    "missing-im", "all-nan-image", "int-band-names", "float-band-names", "msk-off-grid", "classif-off-grid", "segm-off-grid",
    "disparity-off-grid", "no-attr-no_data_img", "no-attr-valid_pixels", "no-attr-no_data_mask", "no-attr-crs", "no-attr-transform",
    "no-disparity", "no-band-disp-coord", "band-disp-without-max", "band-disp-without-min", "min-gt-max-one-pixel", "min-gt-max-by-half-a-pixel",
    "min-gt-max-everywhere", "size-mismatch-rows", "size-mismatch-cols",
]
IN_FAULTS = [
    "left-img-unreadable", "right-img-unreadable", "left-img-not-a-string", "nodata-float", "nodata-string", "mask-other-size",
    "mask-unreadable", "classif-other-size", "segm-other-size", "right-mask-other-size", "disp-length-1", "disp-length-3",
    "disp-reversed", "disp-floats", "disp-missing", "disp-strings", "grid-one-band", "grid-three-bands", "grid-other-size",
    "grid-min-gt-max", "grid-min-gt-max-at-one-pixel", "grid-min-gt-max-where-the-file-has-nodata", "grid-min-gt-max-nodata-tag-0",
    "right-grid-min-gt-max-where-the-file-has-nodata", "right-grid-without-left-grid", "right-list", "images-different-size", "right-grid-other-size",
]


def plan(tier, seed):
    specs = [{"name": "ds-single", "work": "ds-single"}, {"name": "in-single", "work": "in-single"}]
    n = 2 if tier == "quick" else 8
    for i in range(n):
        specs.append({"name": f"ds-pairs-{i}", "work": "ds-pairs", "part": i, "n": 150 if tier == "quick" else 1200})
        specs.append({"name": f"in-pairs-{i}", "work": "in-pairs", "part": i, "n": 60 if tier == "quick" else 500})
    specs.append({"name": "upfront", "work": "upfront"})
    specs.append({"name": "paths-history", "work": "paths", "n": 6 if tier == "quick" else 60})
    return specs


def setup(spec, ctx):
    pipes.register_plugins()


def cases(spec, ctx):
    w = spec["work"]
    if w == "ds-single":
        for b in range(12):
            yield {"work": "ds", "base": b, "faults": []}
            for side in ("left", "right"):
                for f in DS_FAULTS:
                    yield {"work": "ds", "base": b, "faults": [[side, f]]}
    elif w == "in-single":
        for b in range(5):
            yield {"work": "in", "base": b, "faults": []}
            for f in IN_FAULTS:
                yield {"work": "in", "base": b, "faults": [f]}
    elif w == "ds-pairs":
        for i in range(spec["n"]):
            yield {"work": "ds-rand", "part": spec["part"], "i": i}
    elif w == "in-pairs":
        for i in range(spec["n"]):
            yield {"work": "in-rand", "part": spec["part"], "i": i}
    elif w == "paths":
        for i in range(spec["n"]):
            yield {"work": "paths", "i": i}
    else:
        for i in range(4):
            yield {"work": "upfront", "i": i}


# ----------------------------------------------------------------------------------------------
# datasets
# ----------------------------------------------------------------------------------------------
def base_pair(rng, base):
    """Well-formed pairs of increasing richness."""
    shapes = [(1, 1), (5, 7), (12, 9), (30, 40), (3, 20), (8, 8)]
    H, W = shapes[base % len(shapes)]
    nb = [1, 1, 3, 2, 1, 4][base % 6]
    l, r = gen.stereo_pair(rng, H, W, "random", max_shift=1, bands=nb)
    grid = base % 6 in (2, 3, 5)
    if grid:
        ld = gen.grids(rng, H, W, -3, 2, "random")
        rd = gen.grids(rng, H, W, -2, 3, "random") if base % 2 else None
    else:
        ld, rd = (-2, 2), ((-2, 2) if base % 2 else None)
    lm = gen.mask(rng, H, W, "sparse") if base % 6 in (1, 3) else None
    if nb > 1 and base >= 6:
        # a multiband image with one empty band (entirely NaN) is "not entirely NaN": well-formed; the empty band is the first one
        # on one image and the last one on the other
        l = l.copy(); r = r.copy()
        l[0] = np.nan
        r[-1] = np.nan
    left = gen.make_dataset(l, ld, lm)
    right = gen.make_dataset(r, rd, None)
    if nb > 1 and base >= 6:
        # the same band names held in an object-dtype array (API users, pandas indexes, datasets read back from
        # netCDF): still strings, still well-formed
        side = left if base % 2 else right
        names = np.array([str(b) for b in side.coords["band_im"].data], dtype=object)
        if base % 2:
            left = left.assign_coords(band_im=names)
        else:
            right = right.assign_coords(band_im=names)
    if base % 6 in (3, 5):
        left.coords["band_classif"] = ["a", "b"]
        left["classif"] = xr.DataArray(rng.integers(0, 2, (2, H, W)).astype(np.int16), dims=["band_classif", "row", "col"])
        left["segm"] = xr.DataArray(rng.integers(0, 5, (H, W)).astype(np.int16), dims=["row", "col"])
    return left, right


def apply_ds_fault(ds, fault, rng, is_left):
    """Returns (dataset, applied: bool). applied False when the fault has no meaning on this dataset."""
    H, W = ds.sizes["row"], ds.sizes["col"]
    if fault == "missing-im":
        return ds.drop_vars("im"), True
    if fault == "all-nan-image":
        ds["im"].data[:] = np.nan
        return ds, True
    if fault in ("int-band-names", "float-band-names"):
        if "band_im" not in ds.coords:
            return ds, False
        n = ds.sizes["band_im"]
        vals = list(range(n)) if fault.startswith("int") else [float(i) + 0.5 for i in range(n)]
        return ds.assign_coords(band_im=vals), True
    if fault in ("msk-off-grid", "segm-off-grid"):
        name = fault.split("-")[0]
        ds = ds.drop_vars(name) if name in ds else ds
        ds[name] = xr.DataArray(np.zeros((H + 1, W), np.int16), dims=["row2", "col"])
        return ds, True
    if fault == "classif-off-grid":
        ds = ds.drop_vars("classif") if "classif" in ds else ds
        ds["classif"] = xr.DataArray(np.zeros((2, H, W + 2), np.int16), dims=["band_classif2", "row", "col2"])
        return ds, True
    if fault == "disparity-off-grid":
        ds = ds.drop_vars("disparity") if "disparity" in ds else ds
        if "band_disp" not in ds.coords:
            ds.coords["band_disp"] = ["min", "max"]
        ds["disparity"] = xr.DataArray(np.array([np.full((H, W + 1), -1.0), np.full((H, W + 1), 1.0)]), dims=["band_disp", "row", "col3"])
        return ds, True
    if fault.startswith("no-attr-"):
        a = fault[len("no-attr-"):]
        ds.attrs = {k: v for k, v in ds.attrs.items() if k != a}
        return ds, True
    if fault == "no-disparity":
        if "disparity" not in ds:
            return ds, False
        return ds.drop_vars("disparity"), True
    if fault in ("no-band-disp-coord", "band-disp-without-max", "band-disp-without-min"):
        if "disparity" not in ds:
            return ds, False
        data = ds["disparity"].data
        ds = ds.drop_vars("disparity").drop_vars("band_disp")
        if fault == "no-band-disp-coord":
            ds["disparity"] = xr.DataArray(data, dims=["band_disp", "row", "col"])
        else:
            names = ["min", "other"] if fault.endswith("max") else ["other", "max"]
            ds.coords["band_disp"] = names
            ds["disparity"] = xr.DataArray(data, dims=["band_disp", "row", "col"])
        return ds, True
    if fault in ("min-gt-max-one-pixel", "min-gt-max-everywhere", "min-gt-max-by-half-a-pixel"):
        if "disparity" not in ds:
            return ds, False
        d = ds["disparity"].data.astype(np.float32).copy()
        if fault.endswith("half-a-pixel"):
            # float grids: a violation smaller than one disparity (min = max + 0.5 at one pixel, 1.75 / 1.25 at another)
            y, x = int(rng.integers(0, H)), int(rng.integers(0, W))
            d[0, y, x] = d[1, y, x] + 0.5
            y2, x2 = int(rng.integers(0, H)), int(rng.integers(0, W))
            d[:, y2, x2] = [1.75, 1.25]
        elif fault.endswith("one-pixel"):
            y, x = int(rng.integers(0, H)), int(rng.integers(0, W))
            d[0, y, x] = d[1, y, x] + 1
        else:
            d[0] = d[1] + 2
        ds["disparity"] = xr.DataArray(d, dims=["band_disp", "row", "col"])
        return ds, True
    if fault in ("size-mismatch-rows", "size-mismatch-cols"):
        # rebuild this side with one more row / column (self-consistent dataset of another size)
        im = ds["im"].data
        pad = [(0, 0)] * im.ndim
        pad[-2 if fault.endswith("rows") else -1] = (0, 1)
        im2 = np.pad(im, pad, mode="edge")
        disp = None
        if "disparity" in ds:
            disp = (-2, 2)
        bands = list(ds.coords["band_im"].data) if "band_im" in ds.coords else None
        new = gen.make_dataset(im2, disp, None, bands=bands)
        return new, True
    raise ValueError(fault)


def ds_well_formed(left, right):
    """The statement's predicate for a dataset pair."""
    for ds, is_left in ((left, True), (right, False)):
        if "im" not in ds:
            return False
        if np.isnan(ds["im"].data).all():
            return False
        if "band_im" in ds.coords and not all(isinstance(b, str) for b in ds.coords["band_im"].data):
            return False
        shp = ds["im"].data.shape[-2:]
        for v in ds.data_vars:
            if v != "im" and ds[v].data.shape[-2:] != shp:
                return False
        if not {"no_data_img", "valid_pixels", "no_data_mask", "crs", "transform"} <= set(ds.attrs):
            return False
        if "disparity" in ds:
            if "band_disp" not in ds["disparity"].coords:
                return False
            bd = list(ds["disparity"].coords["band_disp"].data)
            if "min" not in bd or "max" not in bd:
                return False
            d = ds["disparity"]
            if (d.sel(band_disp="min").data > d.sel(band_disp="max").data).any():
                return False
        elif is_left:
            return False
    if left["im"].data.shape[-2:] != right["im"].data.shape[-2:]:
        return False
    return True


def run_ds(case, ctx, base, faults, rng):
    from pandora.check_configuration import check_datasets

    left, right = base_pair(rng, base)
    applied = []
    for side, f in faults:
        try:
            if side == "left":
                left, ok = apply_ds_fault(left, f, rng, True)
            else:
                right, ok = apply_ds_fault(right, f, rng, False)
        except Exception:  # pylint: disable=broad-except
            # two faults that cannot be combined on one dataset (e.g. two edits of the same variable): keep the first
            ok = False
        if ok:
            applied.append([side, f])
    expect = ds_well_formed(left, right)
    try:
        check_datasets(left, right)
        got, exc = True, None
    except Exception as e:  # pylint: disable=broad-except
        got, exc = False, e
    desc = {"base": base, "faults": applied, "shape": [int(left.sizes.get("row", 0)), int(left.sizes.get("col", 0))]}
    ctx.case(["ds", base, applied], nontrivial=bool(applied) or base % 6 in (2, 3, 5))
    if expect:
        ctx.gate("well_formed_accepted")
        if base % 6 in (3, 5) and not applied:
            ctx.gate("well_formed_multiband_grids_accepted", int(got))
    else:
        ctx.gate("malformed_refused", int(not got))
        for s_, f_ in applied:
            ctx.note("ds_faults_refused", f"{f_}@{base}") if not got else None
    if got != expect:
        ctx.violation(
            "dataset-acceptance",
            f"pair (base {base}, faults {applied}) is {'well' if expect else 'mal'}-formed but check_datasets "
            f"{'accepted it' if got else 'refused it: ' + repr(exc)}", case,
            situation=",".join(sorted(f for _, f in applied)) or "well-formed", desc=desc)
    if ctx.evaluations <= 3:
        ctx.sample({"case": desc, "well_formed": expect, "accepted": got})


# ----------------------------------------------------------------------------------------------
# input sections on disk
# ----------------------------------------------------------------------------------------------
_files: dict = {}


def files(ctx, rng):
    if _files:
        return _files
    d = os.path.join(ctx.workdir, "files")
    H, W = 10, 14
    l, r = gen.stereo_pair(rng, H, W, "random", max_shift=1)
    _files["left"] = rasters.write_tif(os.path.join(d, "left.tif"), l)
    _files["right"] = rasters.write_tif(os.path.join(d, "right.tif"), r)
    l3, r3 = gen.stereo_pair(rng, H, W, "random", max_shift=1, bands=3)
    _files["left3"] = rasters.write_tif(os.path.join(d, "left3.tif"), l3, descriptions=["r", "g", "b"])
    _files["right3"] = rasters.write_tif(os.path.join(d, "right3.tif"), r3, descriptions=["r", "g", "b"])
    _files["mask"] = rasters.write_tif(os.path.join(d, "mask.tif"), rng.integers(0, 2, (H, W)), "int16")
    _files["mask_big"] = rasters.write_tif(os.path.join(d, "mask_big.tif"), np.zeros((H + 1, W)), "int16")
    _files["classif"] = rasters.write_tif(os.path.join(d, "classif.tif"), rng.integers(0, 2, (2, H, W)), "int16", descriptions=["a", "b"])
    _files["classif_big"] = rasters.write_tif(os.path.join(d, "classif_big.tif"), np.zeros((2, H, W + 3)), "int16", descriptions=["a", "b"])
    _files["segm"] = rasters.write_tif(os.path.join(d, "segm.tif"), rng.integers(0, 4, (H, W)), "int16")
    _files["segm_big"] = rasters.write_tif(os.path.join(d, "segm_big.tif"), np.zeros((H + 2, W + 2)), "int16")
    gmin, gmax = gen.grids(rng, H, W, -3, 2, "random")
    _files["grid"] = rasters.write_tif(os.path.join(d, "grid.tif"), np.array([gmin, gmax]), "float32")
    _files["rgrid"] = rasters.write_tif(os.path.join(d, "rgrid.tif"), np.array([-gmax, -gmin]), "float32")
    _files["grid1"] = rasters.write_tif(os.path.join(d, "grid1.tif"), gmin, "float32")
    _files["grid3"] = rasters.write_tif(os.path.join(d, "grid3.tif"), np.array([gmin, gmax, gmax]), "float32")
    _files["grid_big"] = rasters.write_tif(os.path.join(d, "grid_big.tif"), np.zeros((2, H, W + 1)), "float32")
    _files["grid_bad"] = rasters.write_tif(os.path.join(d, "grid_bad.tif"), np.array([gmax + 1, gmin]), "float32")
    one = np.array([gmin, gmax]).copy()
    one[:, H // 2, W // 3] = [2.0, -1.0]
    _files["grid_bad_1px"] = rasters.write_tif(os.path.join(d, "grid_bad_1px.tif"), one, "float32")
    # grid files that declare a nodata value: the inversion sits on samples equal to that value
    holes = np.array([gmin, gmax]).copy()
    holes[1, 1, 2] = holes[1, H - 2, W - 3] = -9999.0
    _files["grid_bad_nd"] = rasters.write_tif(os.path.join(d, "grid_bad_nd.tif"), holes, "float32", nodata=-9999.0)
    _files["rgrid_bad_nd"] = rasters.write_tif(os.path.join(d, "rgrid_bad_nd.tif"), np.array([-gmax, np.where(holes[1] == -9999.0, -9999.0, -gmin)]),
                                               "float32", nodata=-9999.0)
    zero = np.array([np.minimum(gmin, -1.0), np.maximum(gmax, 1.0)]).copy()
    zero[:, 3, 3] = [0.0, -3.0]
    _files["grid_bad_nd0"] = rasters.write_tif(os.path.join(d, "grid_bad_nd0.tif"), zero, "float32", nodata=0.0)
    # well-formed grids that declare a nodata value
    _files["grid_nd"] = rasters.write_tif(os.path.join(d, "grid_nd.tif"), np.array([gmin, gmax]), "float32", nodata=-9999.0)
    _files["rgrid_nd"] = rasters.write_tif(os.path.join(d, "rgrid_nd.tif"), np.array([-gmax, -gmin]), "float32", nodata=0.0)
    _files["right_big"] = rasters.write_tif(os.path.join(d, "right_big.tif"), np.zeros((H, W + 1)), "float32")
    _files["nofile"] = os.path.join(d, "does_not_exist.tif")
    with open(os.path.join(d, "garbage.tif"), "w") as f:
        f.write("this is not a raster")
    _files["garbage"] = os.path.join(d, "garbage.tif")
    return _files


def base_input(F, base):
    if base == 0:
        return {"left": {"img": F["left"], "disp": [-2, 2]}, "right": {"img": F["right"]}}
    if base == 1:
        return {"left": {"img": F["left3"], "disp": [-3, 0], "nodata": float("nan"), "mask": F["mask"], "classif": F["classif"], "segm": F["segm"]},
                "right": {"img": F["right3"], "nodata": -5, "mask": F["mask"]}}
    if base == 2:
        return {"left": {"img": F["left"], "disp": F["grid"]}, "right": {"img": F["right"], "disp": F["rgrid"]}}
    if base == 4:
        return {"left": {"img": F["left"], "disp": F["grid_nd"]}, "right": {"img": F["right"], "disp": F["rgrid_nd"]}}
    return {"left": {"img": F["left"], "disp": F["grid"], "mask": None}, "right": {"img": F["right"], "disp": None}}


def apply_in_fault(cfg, f, F):
    L, R = cfg["left"], cfg["right"]
    grid_base = isinstance(L.get("disp"), str)
    if f == "left-img-unreadable":
        L["img"] = F["nofile"]
    elif f == "right-img-unreadable":
        R["img"] = F["garbage"]
    elif f == "left-img-not-a-string":
        L["img"] = 12
    elif f == "nodata-float":
        L["nodata"] = 1.5
    elif f == "nodata-string":
        R["nodata"] = "abc"
    elif f == "mask-other-size":
        L["mask"] = F["mask_big"]
    elif f == "mask-unreadable":
        L["mask"] = F["nofile"]
    elif f == "classif-other-size":
        L["classif"] = F["classif_big"]
    elif f == "segm-other-size":
        L["segm"] = F["segm_big"]
    elif f == "right-mask-other-size":
        R["mask"] = F["mask_big"]
    elif f == "disp-length-1":
        L["disp"] = [1]
        R["disp"] = None
    elif f == "disp-length-3":
        L["disp"] = [1, 2, 3]
        R["disp"] = None
    elif f == "disp-reversed":
        L["disp"] = [3, 1]
        R["disp"] = None
    elif f == "disp-floats":
        L["disp"] = [-1.5, 2.0]
        R["disp"] = None
    elif f == "disp-missing":
        L.pop("disp", None)
    elif f == "disp-strings":
        L["disp"] = ["-2", "2"]
        R["disp"] = None
    elif f == "grid-one-band":
        L["disp"] = F["grid1"]
    elif f == "grid-three-bands":
        L["disp"] = F["grid3"]
    elif f == "grid-other-size":
        L["disp"] = F["grid_big"]
    elif f == "grid-min-gt-max":
        L["disp"] = F["grid_bad"]
    elif f == "grid-min-gt-max-at-one-pixel":
        L["disp"] = F["grid_bad_1px"]
    elif f == "grid-min-gt-max-where-the-file-has-nodata":
        L["disp"] = F["grid_bad_nd"]
    elif f == "grid-min-gt-max-nodata-tag-0":
        L["disp"] = F["grid_bad_nd0"]
    elif f == "right-grid-min-gt-max-where-the-file-has-nodata":
        if not grid_base:
            L["disp"] = F["grid"]
        R["disp"] = F["rgrid_bad_nd"]
    elif f == "right-grid-without-left-grid":
        L["disp"] = [-2, 2]
        R["disp"] = F["rgrid"]
    elif f == "right-list":
        R["disp"] = [-2, 2]
    elif f == "images-different-size":
        R["img"] = F["right_big"]
        R.pop("mask", None)
    elif f == "right-grid-other-size":
        if not grid_base:
            L["disp"] = F["grid"]
        R["disp"] = F["grid_big"]
    else:
        raise ValueError(f)
    return True


def run_in(case, ctx, base, faults, rng):
    from pandora.check_configuration import check_input_section

    F = files(ctx, ctx.rng("files"))
    cfg = base_input(F, base)
    for f in faults:
        apply_in_fault(cfg, f, F)
    expect = len(faults) == 0
    user = {"input": copy.deepcopy(cfg)}
    try:
        check_input_section(user)
        got, exc = True, None
    except Exception as e:  # pylint: disable=broad-except
        got, exc = False, e
    ctx.case(["in", base, faults], nontrivial=bool(faults) or base > 0)
    for f in faults:
        ctx.note("input_fault_classes", f)
    if expect:
        ctx.gate("well_formed_accepted")
    else:
        ctx.gate("malformed_refused", int(not got))
    if got != expect:
        ctx.violation(
            "input-section-acceptance",
            f"input section (base {base}, faults {faults}) is {'well' if expect else 'mal'}-formed but check_input_section "
            f"{'accepted it' if got else 'refused it: ' + repr(exc)[:300]}", case,
            situation=",".join(sorted(faults)) or "well-formed", desc={"base": base, "faults": faults, "input": cfg})


def run_case(case, ctx):
    w = case["work"]
    if w == "ds":
        rng = ctx.rng("ds", case["base"], repr(case["faults"]))
        return run_ds(case, ctx, case["base"], case["faults"], rng)
    if w == "ds-rand":
        rng = ctx.rng("ds-rand", case["part"], case["i"])
        base = int(rng.integers(0, 12))
        n = int(rng.integers(0, 3))
        faults = [[["left", "right"][int(rng.integers(0, 2))], DS_FAULTS[int(rng.integers(0, len(DS_FAULTS)))]] for _ in range(n)]
        return run_ds(case, ctx, base, faults, rng)
    if w == "in":
        rng = ctx.rng("in", case["base"], repr(case["faults"]))
        return run_in(case, ctx, case["base"], case["faults"], rng)
    if w == "in-rand":
        rng = ctx.rng("in-rand", case["part"], case["i"])
        base = int(rng.integers(0, 5))
        n = int(rng.integers(0, 3))
        faults = sorted({IN_FAULTS[int(rng.integers(0, len(IN_FAULTS)))] for _ in range(n)})
        # incompatible combinations (two edits of the same field): keep the first
        seen, keep = set(), []
        for f in faults:
            field = f.split("-")[0] if not f.startswith(("disp", "grid", "right-grid")) else "disp"
            if field in seen:
                continue
            seen.add(field)
            keep.append(f)
        if any(f in keep for f in ("right-grid-without-left-grid", "right-list", "right-grid-other-size", "right-grid-min-gt-max-where-the-file-has-nodata")):
            keep = [f for f in keep if not f.startswith(("disp", "grid"))]
        return run_in(case, ctx, base, keep, rng)
    if w == "upfront":
        return _upfront(case, ctx)
    if w == "paths":
        return _paths(case, ctx)
    raise ValueError(w)


def _paths(case, ctx):
    """History of checks on the SAME file paths whose content is rewritten in between: every verdict must follow
    the files as they are at the time of the call (no stale state between calls)."""
    from pandora.check_configuration import check_input_section

    rng = ctx.rng("paths", case["i"])
    d = os.path.join(ctx.workdir, f"paths{case['i']}")
    paths = {k: os.path.join(d, f"{k}.tif") for k in ("left", "right", "mask", "grid")}
    sizes = [(10, 12), (8, 9), (10, 13)]
    state = {}

    def write(kind, shape):
        if kind == "grid":
            gmin, gmax = gen.grids(rng, shape[0], shape[1], -3, 2, "random")
            rasters.write_tif(paths[kind], np.array([gmin, gmax]), "float32")
        elif kind == "mask":
            rasters.write_tif(paths[kind], (rng.random(shape) < 0.1).astype(np.int16), "int16")
        else:
            rasters.write_tif(paths[kind], rng.integers(0, 255, shape).astype(np.float32), "float32")
        state[kind] = shape

    for k in paths:
        write(k, sizes[0])
    use_grid = bool(rng.integers(0, 2))
    steps = []
    for step in range(int(rng.integers(4, 8))):
        if step > 0:
            kind = ["left", "right", "mask", "grid"][int(rng.integers(0, 4))]
            write(kind, sizes[int(rng.integers(0, len(sizes)))])
        cfg = {"left": {"img": paths["left"], "mask": paths["mask"], "disp": paths["grid"] if use_grid else [-2, 2]},
               "right": {"img": paths["right"]}}
        expect = state["left"] == state["right"] == state["mask"] and (not use_grid or state["grid"] == state["left"])
        try:
            check_input_section({"input": copy.deepcopy(cfg)})
            got, exc = True, None
        except Exception as e:  # pylint: disable=broad-except
            got, exc = False, e
        steps.append({"sizes": dict(state), "expected": expect, "accepted": got})
        ctx.gate("checks_on_rewritten_paths")
        if got != expect:
            ctx.violation("input-section-acceptance",
                          f"step {step} of a history on fixed paths: files now have sizes {state}, the section is "
                          f"{'well' if expect else 'mal'}-formed but was {'accepted' if got else 'refused: ' + repr(exc)[:200]}; history {steps}",
                          case, situation="same-paths-rewritten", desc={"history": steps})
            break
    ctx.case(["paths", case["i"], [s_["sizes"] for s_ in steps]])


def _upfront(case, ctx):
    """Refusal happens before any matching callback: run the CLI entry point in-process on a malformed
    configuration with every run callback of the machine class spied."""
    import json
    import pandora
    from pandora.state_machine import PandoraMachine

    F = files(ctx, ctx.rng("files"))
    cfg = base_input(F, 0)
    fault = ["disp-reversed", "images-different-size", "mask-other-size", "grid-min-gt-max"][case["i"]]
    apply_in_fault(cfg, fault, F)
    user = {"input": cfg, "pipeline": pipes.instantiate(["matching_cost", "disparity"])}
    d = os.path.join(ctx.workdir, f"upfront{case['i']}")
    os.makedirs(d, exist_ok=True)
    path = os.path.join(d, "cfg.json")
    with open(path, "w") as f:
        json.dump(user, f)
    ran = []
    originals = {}
    for t in PandoraMachine._transitions_run:  # pylint: disable=protected-access
        for ph in ("prepare", "after"):
            n = t.get(ph)
            if isinstance(n, str) and n not in originals:
                originals[n] = getattr(PandoraMachine, n)

                def make(n=n):
                    def w(self_, *a, **k):
                        ran.append(n)
                        return originals[n](self_, *a, **k)
                    return w
                setattr(PandoraMachine, n, make())
    try:
        try:
            pandora.main(path, os.path.join(d, "out"), False)
            refused = False
        except Exception:  # pylint: disable=broad-except
            refused = True
    finally:
        for n, o in originals.items():
            setattr(PandoraMachine, n, o)
    ctx.case(["upfront", fault])
    ctx.gate("refusal_before_matching", int(refused and not ran))
    if not refused:
        ctx.violation("malformed-configuration-ran", f"fault {fault}: pandora.main completed", case, situation=fault)
    elif ran:
        ctx.violation("refusal-after-processing-started", f"fault {fault}: callbacks {ran} ran before the refusal", case, situation=fault)


def finish(coverage, tot, tier):
    refused = tot["info"].get("ds_faults_refused", [])
    per = {}
    for s in refused:
        f, b = s.split("@")
        per.setdefault(f, set()).add(b)
    tot["gates"]["every_dataset_fault_refused_on_3_shapes"] = int(all(len(per.get(f, ())) >= 3 for f in DS_FAULTS))
    seen = set(tot["info"].get("input_fault_classes", []))
    tot["gates"]["every_input_fault_class_seen"] = int(all(f in seen for f in IN_FAULTS))
    coverage["dataset_faults_refused_on_n_bases"] = {f: len(v) for f, v in per.items()}
