"""C01 - accepted pipelines are exactly the documented automaton and run as written.

Monitor shapes: history + executable model (3-state DFA, expected callback trace) and invariant
at a hook (state / leftover transitions after every check and run)."""
from __future__ import annotations

import copy
import itertools
import json

import numpy as np

from pvmon import gen, pipes, trace

LEVEL = "exploration"
RULE = (
    "words over the 10 step kinds: every word up to length L (quick 5, thorough 7) enumerated completely, "
    "DFA-accepted words again with suffixed first occurrences; random longer words from the DFA language "
    "perturbed by one edit; accepted words executed under the step tracer on a 14x18 pair with and without "
    "validation and with 2-3 scales; check/run histories on one machine. distinct = distinct tuple of step "
    "keys (+ workload tag); non-trivial = word of length >= 2 or rejected word"
)
ASSUMPTIONS = [
    "optimization and semantic_segmentation are exercised with inert plugins registered through the public "
    "register_subclass API (no built-in method exists in this build)",
    "the language is infinite: complete up to length L only, sampled beyond",
]
GATES = {
    "transition_fired_check": 10,
    "transition_fired_run": 10,
    "suffixed_first_occurrence_accepted": 10,
    "multiscale_S2_observed": 1,
    "multiscale_S3_observed": 1,
    "history_check_run_run": 1,
    "history_run_check_run": 1, "history_with_suffixed_validation_only": 1, "history_two_pipelines_on_one_machine": 10,
    "second_pipeline_drops_a_step_of_the_first": 2, "second_pipeline_reorders_steps_of_the_first": 2,
    "completed_configuration_rechecked_with_permuted_steps": 5, "completed_configuration_rechecked_in_an_illegal_order": 2,
    "right_pass_observed": 1,
    "rejected_words": 100,
    "accepted_words": 100,
}

L_ENUM = {"quick": 5, "thorough": 7}
N_ENUM_SHARDS = {"quick": 8, "thorough": 16}


def plan(tier, seed):
    specs = []
    n = N_ENUM_SHARDS[tier]
    for i in range(n):
        specs.append({"name": f"enum-{i}", "work": "enum", "part": i, "parts": n, "L": L_ENUM[tier], "timeout": 3000})
    specs.append({"name": "rand", "work": "rand", "n": 2000 if tier == "quick" else 40000, "timeout": 3000})
    specs.append({"name": "faults", "work": "faults", "timeout": 3000})
    ne = 4 if tier == "quick" else 12
    for i in range(ne):
        specs.append(
            {
                "name": f"exec-{i}",
                "work": "exec",
                "part": i,
                "parts": ne,
                "L": 4 if tier == "quick" else 5,
                "mode": "B" if i % 4 == 3 else "A",
                "timeout": 3000,
            }
        )
    nh = 2 if tier == "quick" else 8
    for i in range(nh):
        specs.append({"name": f"hist-{i}", "work": "hist", "part": i, "n": 40 if tier == "quick" else 150,
                      "timeout": 3000})
    for i in range(2 if tier == "quick" else 8):
        specs.append({"name": f"hist2-{i}", "work": "hist2", "part": i, "n": 30 if tier == "quick" else 120, "timeout": 3000})
    return specs


# ----------------------------------------------------------------------------------------------
_ctx_cache: dict = {}


def setup(spec, ctx):
    pipes.register_plugins()
    rng = ctx.rng("images")
    l3, r3 = gen.stereo_pair(rng, 14, 18, "random", max_shift=2, bands=3)
    _ctx_cache["mb"] = (gen.make_dataset(l3, (-2, 2)), gen.make_dataset(r3, (-2, 2)))
    _ctx_cache["mono"] = (gen.make_dataset(l3[0], (-2, 2)), gen.make_dataset(r3[0], (-2, 2)))
    for k in ("mb", "mono"):
        l, r = _ctx_cache[k]
        _ctx_cache[k + "_meta"] = (gen.metadata_dataset(l), gen.metadata_dataset(r))


def accepted_words(L):
    out = []
    for n in range(1, L + 1):
        for w in itertools.product(pipes.KINDS, repeat=n):
            if pipes.dfa_accepts(w):
                out.append(w)
    return out


def cases(spec, ctx):
    work = spec["work"]
    if work == "enum":
        idx = 0
        for n in range(1, spec["L"] + 1):
            for w in itertools.product(range(10), repeat=n):
                idx += 1
                if idx % spec["parts"] != spec["part"]:
                    continue
                kinds = [pipes.KINDS[i] for i in w]
                yield {"work": "accept", "keys": pipes.keys_for(kinds), "variant": "bare"}
                if pipes.dfa_accepts(kinds):
                    yield {"work": "accept", "keys": pipes.keys_for(kinds, suffix_first=set(kinds)), "variant": "sfx"}
                    yield {
                        "work": "accept",
                        "keys": pipes.keys_for(kinds, suffix_first={kinds[-1]}, style="alpha"),
                        "variant": "sfx-last",
                    }
                    # the documentation allows any string after the first dot, dots included
                    yield {"work": "accept", "keys": pipes.keys_for(kinds, suffix_first={kinds[idx % len(kinds)]}, style=["dotted", "word", "kindname"][idx % 3]),
                           "variant": "sfx-free"}
                elif idx % 97 == 0:
                    yield {"work": "accept", "keys": pipes.keys_for(kinds, suffix_first=set(kinds)), "variant": "sfx"}
    elif work == "rand":
        rng = ctx.rng("rand")
        for i in range(spec["n"]):
            w = pipes.sample_word(rng, max_len=14)
            op = int(rng.integers(0, 4))
            if op == 1 and len(w) > 1:
                a, b = rng.integers(0, len(w), 2)
                w[a], w[b] = w[b], w[a]
            elif op == 2:
                w.insert(int(rng.integers(0, len(w) + 1)), pipes.KINDS[int(rng.integers(0, 10))])
            elif op == 3 and len(w) > 1:
                del w[int(rng.integers(0, len(w)))]
            sfx = set(w) if rng.random() < 0.3 else None
            yield {"work": "accept", "keys": pipes.keys_for(w, suffix_first=sfx), "variant": f"rand{op}"}
    elif work == "faults":
        words = accepted_words(3)
        for w in words:
            keys = pipes.keys_for(w)
            for pos, key in enumerate(keys):
                for fname, fault in FAULTS.get(pipes.kind_of(key), []):
                    yield {"work": "fault", "keys": keys, "pos": pos, "fault": fname}
    elif work == "exec":
        words = accepted_words(spec["L"])
        rng = ctx.rng("exec-sample")
        idx = 0
        for w in words:
            idx += 1
            if idx % spec["parts"] != spec["part"]:
                continue
            if len(w) == 5 and rng.random() > 0.25:
                continue
            for validation in (False, True):
                kinds = list(w)
                if validation and "validation" not in kinds:
                    if "disparity" not in kinds:
                        continue
                    kinds = kinds + ["validation"]
                elif not validation and "validation" in kinds:
                    continue
                variants = [(None, None)]
                if "multiscale" in kinds:
                    variants = [(2, 2), (3, 2), (2, 3)]
                for ns, sf in variants:
                    yield {
                        "work": "exec",
                        "keys": pipes.keys_for(kinds, suffix_first=set(kinds) if idx % 3 == 0 else ({kinds[idx % len(kinds)]} if idx % 3 == 1 else None),
                                               style=["num", "dotted", "alpha", "word"][(idx // 3) % 4]),
                        "num_scales": ns,
                        "scale_factor": sf,
                    }
    elif work == "hist":
        rng = ctx.rng("hist", spec["part"])
        for i in range(spec["n"]):
            w = pipes.sample_word(rng, max_len=7)
            if (rng.random() < 0.5 or i % 4 == 0) and "disparity" in w and "validation" not in w:
                w.append("validation")
            # documented usage: a pipeline is checked on the machine, then run any number of times
            ops = ["check"] + [["check", "run"][int(x)] for x in rng.integers(0, 2, int(rng.integers(4, 9)))]
            if i % 4 == 0:
                ops = ["check", "run", "run", "run"] + ops[1:3]
            if i % 4 == 1:
                ops = ["check", "run", "check", "run"] + ops[1:3]
            sfx = set(w) if i % 2 == 0 else None
            yield {"work": "hist", "keys": pipes.keys_for(w, suffix_first=sfx), "ops": ops, "i": i, "part": spec["part"]}
    elif work == "hist2":
        yield from _hist2_cases(spec, ctx)


def _hist2_cases(spec, ctx):
    """Two different accepted pipelines checked one after the other on one machine object."""
    rng = ctx.rng("hist2", spec["part"])
    i = 0
    while i < spec["n"]:
        a = pipes.sample_word(rng, max_len=7)
        kind = i % 4
        if kind == 0:
            # B = A without one of its post-disparity steps
            post = [j for j, k in enumerate(a) if j > a.index("disparity")]
            if not post:
                a.append("filter")
                post = [len(a) - 1]
            j = post[int(rng.integers(0, len(post)))]
            b = a[:j] + a[j + 1:]
        elif kind == 1:
            # B = A with two different post-disparity steps exchanged
            d = a.index("disparity")
            tail = [k for k in a[d + 1:] if k != "multiscale"]
            if len(set(tail)) < 2:
                tail = ["filter", "refinement"]
            a = a[:d + 1] + tail
            x, y = [j for j in range(d + 1, len(a))][0], max(j for j in range(d + 1, len(a)) if a[j] != a[d + 1])
            b = list(a)
            b[x], b[y] = b[y], b[x]
        elif kind == 2:
            # B = A plus a step placed before known ones
            b = list(a)
            b.insert(1, "cost_volume_confidence")
        else:
            b = pipes.sample_word(rng, max_len=7)
        if rng.random() < 0.4 and "validation" not in a:
            a = [k for k in a if k != "multiscale"] + ["validation"]
        if not (pipes.dfa_accepts(a) and pipes.dfa_accepts(b)) or a == b:
            continue
        sfx_a = set(a) if rng.random() < 0.3 else None
        sfx_b = set(b) if rng.random() < 0.3 else None
        yield {"work": "hist2", "keys": pipes.keys_for(a, suffix_first=sfx_a), "keys_b": pipes.keys_for(b, suffix_first=sfx_b),
               "via": ["section", "machine"][i % 2 if kind != 1 else 0], "run_first": bool(rng.integers(0, 2)), "i": i,
               "part": spec["part"], "relation": ["drop", "swap", "add", "other"][kind]}
        i += 1


FAULTS = {
    "matching_cost": [
        ("even_window", {"window_size": 4}),
        ("unknown_method", {"matching_cost_method": "no_such_method"}),
        ("subpix3", {"subpix": 3}),
        ("wrong_type", {"window_size": "3"}),
    ],
    "aggregation": [("unknown_method", {"aggregation_method": "nope"}), ("neg_distance", {"cbca_distance": -1})],
    "optimization": [("unknown_method", {"optimization_method": "nope"})],
    "semantic_segmentation": [("unknown_method", {"segmentation_method": "nope"})],
    "cost_volume_confidence": [("unknown_method", {"confidence_method": "nope"})],
    "disparity": [("unknown_method", {"disparity_method": "nope"}), ("wrong_type", {"invalid_disparity": "abc"})],
    "filter": [("even_size", {"filter_size": 4}), ("unknown_method", {"filter_method": "nope"})],
    "refinement": [("unknown_method", {"refinement_method": "nope"})],
    "validation": [("unknown_method", {"validation_method": "nope"})],
    "multiscale": [("one_scale", {"num_scales": 1}), ("unknown_method", {"multiscale_method": "nope"})],
}


def _clean(machine):
    """Invariant at the hook: initial state and no leftover transitions."""
    problems = []
    if machine.state != "begin":
        problems.append(f"state={machine.state!r}")
    ev = getattr(machine, "events", {})
    if len(ev) != 0:
        problems.append(f"leftover events={sorted(ev)}")
    return problems


def _params_for(keys, case):
    params = {}
    for k in keys:
        if pipes.kind_of(k) == "multiscale" and case.get("num_scales"):
            params[k] = {"num_scales": case["num_scales"], "scale_factor": case["scale_factor"]}
    return params


def run_case(case, ctx):
    from transitions import MachineError

    work = case["work"]
    keys = case["keys"]
    kinds = [pipes.kind_of(k) for k in keys]
    if work == "accept":
        left_m, right_m = _ctx_cache["mb_meta"]
        pipe = pipes.instantiate(keys, multiband=True)
        m = pipes.new_machine()
        expect = pipes.dfa_accepts(keys)
        ctx.case(["accept", keys], nontrivial=len(keys) >= 2 or not expect,
                 unique_by_construction=case["variant"] in ("bare", "sfx", "sfx-last", "sfx-free"))
        tr = trace.Tracer(m)
        try:
            m.check_conf({"pipeline": copy.deepcopy(pipe)}, left_m, right_m)
            got, exc = True, None
        except Exception as e:  # pylint: disable=broad-except
            got, exc = False, e
        ctx.count("check_conf_calls")
        if expect:
            ctx.gate("accepted_words")
            if case["variant"].startswith("sfx"):
                ctx.gate("suffixed_first_occurrence_accepted", int(got))
        else:
            ctx.gate("rejected_words")
        if got != expect:
            first_sfx = [k for k in keys if "." in k and keys.index(k) == [pipes.kind_of(x) for x in keys].index(pipes.kind_of(k))]
            ctx.violation(
                "acceptance-differs-from-automaton",
                f"word {keys}: automaton {'accepts' if expect else 'rejects'}, check_conf "
                f"{'accepted' if got else 'rejected with ' + repr(exc)}",
                case,
                situation=("suffixed-first-occurrence:" + pipes.kind_of(first_sfx[0])) if (expect and first_sfx) else "plain",
            )
            return
        if not got:
            if not isinstance(exc, MachineError):
                ctx.violation(
                    "rejection-is-not-a-sequencing-error",
                    f"word {keys} rejected with {type(exc).__name__}: {exc}",
                    case,
                )
            return
        # accepted: invariants at the hook
        probs = _clean(m)
        if probs:
            ctx.violation("machine-not-reset-after-check", f"word {keys}: {probs}", case)
        seen = tr.check_steps()
        rounds = 2 if "validation" in kinds else 1
        if seen != list(keys) * rounds:
            ctx.violation(
                "check-callback-trace",
                f"word {keys}: check callbacks saw {seen}, expected {rounds} round(s) of the word",
                case,
            )
        for e in tr.events:
            ctx.note("check_transitions_fired", e["trigger"])
        got_keys = list(m.pipeline_cfg["pipeline"])
        if got_keys != list(keys):
            ctx.violation("checked-pipeline-reordered", f"word {keys}: completed pipeline has {got_keys}", case)
        if ctx.evaluations % 500 == 1:
            ctx.sample({"word": keys, "accepted": got})
        return

    if work == "fault":
        left_m, right_m = _ctx_cache["mb_meta"]
        pipe = pipes.instantiate(keys, multiband=True)
        fault = dict(FAULTS[pipes.kind_of(keys[case["pos"]])])[case["fault"]]
        pipe[keys[case["pos"]]].update(fault)
        m = pipes.new_machine()
        ctx.case(["fault", keys, case["pos"], case["fault"]])
        ctx.count("fault_cases")
        try:
            m.check_conf({"pipeline": pipe}, left_m, right_m)
        except Exception:  # pylint: disable=broad-except
            return
        ctx.violation(
            "invalid-parameter-accepted",
            f"word {keys} with {fault} at {keys[case['pos']]} was accepted",
            case,
            situation=case["fault"],
        )
        return

    if work == "exec":
        _exec(case, ctx, keys, kinds)
        return
    if work == "hist":
        _hist(case, ctx, keys, kinds)
        return
    if work == "hist2":
        _hist2(case, ctx, keys, kinds)
        return
    raise ValueError(work)


def _datasets_for(kinds):
    mb = "semantic_segmentation" in kinds
    if mb and "aggregation" in kinds:
        return None, None, None
    l, r = _ctx_cache["mb" if mb else "mono"]
    return gen.deep_copy_ds(l), gen.deep_copy_ds(r), mb


def expected_trace(keys, kinds, num_scales):
    """(step_key, phase) list the run must produce, from the statement + sequencing.rst."""
    S = num_scales if ("multiscale" in kinds and num_scales) else 1
    exp = []
    for s in range(S - 1, -1, -1):
        for key, kind in zip(keys, kinds):
            if kind == "matching_cost":
                exp.append((key, "prepare", s))
                exp.append((key, "after", s))
            elif kind == "multiscale":
                exp.append((key, "conditions", s))
                if s > 0:
                    exp.append((key, "after", s))
                    break
            else:
                exp.append((key, "after", s))
    return exp


def _exec(case, ctx, keys, kinds):
    import pandora

    left, right, mb = _datasets_for(kinds)
    if left is None:
        ctx.ood()
        return
    S_cfg = case.get("num_scales") or (2 if "multiscale" in kinds else 1)
    pipe = pipes.instantiate(keys, params=_params_for(keys, case), multiband=mb)
    m = pipes.new_machine()
    ctx.case(["exec", keys, case.get("num_scales"), case.get("scale_factor")])
    pipes.check(m, pipe, left, right)
    cfg = pipes.checked_cfg(m, pipe)
    tr = trace.Tracer(m)
    with trace.ClassSpy(m) as spy:
        marks = []
        asym = []

        def structure(ds):
            if ds is None:
                return None
            ind = [str(x) for x in ds.coords["indicator"].data] if "indicator" in ds.coords else []
            return (sorted(map(str, ds.data_vars)), ind)

        def on_after(ev, mm):
            marks.append((ev["step_key"], ev["phase"], len(spy.calls)))
            # effect-based symmetry: with a validation step every step leaves the right products with the same
            # structure (variables, confidence bands in the same order) as the left ones
            if "validation" in kinds and ev["phase"] == "after" and ev["kind"] != "multiscale":
                for a_, b_ in (("left_cv", "right_cv"), ("left_disparity", "right_disparity")):
                    sa, sb = structure(getattr(mm, a_, None)), structure(getattr(mm, b_, None))
                    if sa != sb and sa is not None and sb is not None:
                        asym.append((ev["step_key"], a_, sa, sb))
                ctx.count("structure_symmetry_observations")

        tr.on_after = on_after
        tr.on_before = lambda ev, mm: marks.append((ev["step_key"], "before-" + ev["phase"], len(spy.calls)))
        lres, rres = pandora.run(m, left, right, cfg)
    probs = _clean(m)
    if probs:
        ctx.violation("machine-not-reset-after-run", f"word {keys}: {probs}", case)
    if asym:
        k0, name, sa, sb = asym[0]
        ctx.violation("step-effect-not-symmetric-on-right-data",
                      f"word {keys}: after {k0} the {name} has {sa} but its right counterpart has {sb}", case, situation=pipes.kind_of(k0))
    got = [(k, ph, sc) for (k, ph, sc, _shape, _res) in tr.run_steps()]
    S_eff = S_cfg if "multiscale" in kinds else 1
    exp = expected_trace(keys, kinds, S_eff)
    for e in tr.events:
        if e["table"] == "run" and e["phase"] in ("after", "prepare"):
            ctx.note("run_transitions_fired", e["trigger"])
    if got != exp:
        n_mc = sum(1 for g in got if g[1] == "after" and pipes.kind_of(g[0]) == "matching_cost")
        ctx.violation(
            "run-callback-trace",
            f"word {keys} (S={S_eff}): executed {got}, expected {exp}",
            case,
            situation="multiscale-pass-count" if ("multiscale" in kinds and n_mc != S_eff) else "order-or-count",
        )
        return
    if "multiscale" in kinds:
        shapes = [sh for (k, ph, sc, sh, _r) in tr.run_steps() if ph == "after" and pipes.kind_of(k) == "matching_cost"]
        if len(shapes) == 2:
            ctx.gate("multiscale_S2_observed")
        if len(shapes) == 3:
            ctx.gate("multiscale_S3_observed")
    # symmetry of left/right passes, from the class-level entry points executed inside each callback
    validation = "validation" in kinds
    if validation:
        ctx.gate("right_pass_observed")
    prev = 0
    # marks come in before/after pairs
    i = 0
    while i < len(marks):
        key, ph, n0 = marks[i]
        if not ph.startswith("before-"):
            i += 1
            continue
        phase = ph[len("before-") :]
        n1 = marks[i + 1][2] if i + 1 < len(marks) else len(spy.calls)
        i += 2
        kind = pipes.kind_of(key)
        if phase != "after" or kind in ("multiscale",):
            continue
        calls = spy.calls[n0:n1]
        sides = [c["side"] for c in calls if c["method"] != "interpolated_disparity"]
        nl, nr = sides.count("left"), sides.count("right")
        ctx.count("step_side_observations")
        if kind == "validation":
            # the cross-check is applied left-against-right and right-against-left
            ok = nl == 1 and nr == 1
        else:
            ok = nl == 1 and nr == (1 if validation else 0)
        if not ok:
            ctx.violation(
                "left-right-pass-symmetry",
                f"word {keys}: step {key} applied {nl}x on left data and {nr}x on right data "
                f"(validation step {'present' if validation else 'absent'}); calls={calls}",
                case,
            )
    has_disp = "disparity" in kinds
    if has_disp:
        if "disparity_map" not in lres:
            ctx.violation("no-left-product", f"word {keys}: run returned no left disparity_map", case)
        if validation != ("disparity_map" in rres):
            ctx.violation(
                "right-product-iff-validation",
                f"word {keys}: right dataset {'has' if 'disparity_map' in rres else 'lacks'} a disparity_map",
                case,
            )
    ctx.sample({"word": keys, "S": S_eff, "trace": [f"{k}:{ph}@{sc}" for k, ph, sc in got]})


def _hist(case, ctx, keys, kinds):
    import pandora

    left, right, mb = _datasets_for(kinds)
    if left is None:
        ctx.ood()
        return
    pipe = pipes.instantiate(keys, multiband=mb)
    m = pipes.new_machine()
    ctx.case(["hist", keys, case["ops"]])
    ops = case["ops"]
    s = "".join(o[0] for o in ops)
    ctx.gate("history_check_run_run", int("crr" in s))
    ctx.gate("history_run_check_run", int("rcr" in s))
    ctx.gate("history_with_suffixed_validation_only", int(any(k.startswith("validation.") for k in keys) and "validation" not in keys
                                                          and "rr" in s))
    ml, mr = gen.metadata_dataset(left), gen.metadata_dataset(right)
    # the configuration used by run ops comes from a first check on a scratch machine
    m0 = pipes.new_machine()
    m0.check_conf({"pipeline": copy.deepcopy(pipe)}, ml, mr)
    cfg0 = pipes.checked_cfg(m0, pipe)
    check_results, run_results = [], []
    for op in ops:
        if op == "check":
            m.check_conf({"pipeline": copy.deepcopy(pipe)}, ml, mr)
            res = json.dumps(
                [pipes.checked_cfg(m, pipe), list(m.pipeline_cfg["pipeline"]), m.margins.to_dict()],
                default=repr,
                sort_keys=False,
            )
            check_results.append(res)
        else:
            l, r = pandora.run(m, gen.deep_copy_ds(left), gen.deep_copy_ds(right), copy.deepcopy(cfg0))
            run_results.append((gen.ds_digest(l), gen.ds_digest(r)))
        probs = _clean(m)
        if probs:
            ctx.violation("machine-not-reset-in-history", f"word {keys} after {op}: {probs}", case)
            return
    ctx.count("history_ops", len(ops))
    if len(set(check_results)) > 1:
        ctx.violation("repeated-check-differs", f"word {keys} ops {ops}: {len(set(check_results))} different results",
                      case)
    if len(set(run_results)) > 1:
        ctx.violation("repeated-run-differs", f"word {keys} ops {ops}: digests {run_results}", case)
    if case["i"] < 2:
        ctx.sample({"word": keys, "ops": ops, "run_digests": run_results[:2]})


def _hist2(case, ctx, keys, kinds):
    """check(A) [run(A)] check(B) run(B) on one machine against check(B) run(B) on a new machine."""
    import pandora
    from pandora import check_configuration as cc

    keys_b = case["keys_b"]
    kinds_b = [pipes.kind_of(k) for k in keys_b]
    left, right, mb = _datasets_for(kinds + kinds_b)
    if left is None:
        ctx.ood()
        return
    ctx.case(["hist2", keys, keys_b, case["via"], case["run_first"]])
    pipe_a, pipe_b = pipes.instantiate(keys, multiband=mb), pipes.instantiate(keys_b, multiband=mb)
    ml, mr = gen.metadata_dataset(left), gen.metadata_dataset(right)

    def chk(m, pipe):
        if case["via"] == "section":
            return cc.check_pipeline_section({"pipeline": copy.deepcopy(pipe)}, ml, mr, m)
        m.check_conf({"pipeline": copy.deepcopy(pipe)}, ml, mr)
        return copy.deepcopy(m.pipeline_cfg)

    def go(m):
        cfg = chk(m, pipe_b)
        seen = [json.dumps(cfg, default=repr, sort_keys=False), json.dumps(m.margins.to_dict(), default=repr, sort_keys=False)]
        l, r = pandora.run(m, gen.deep_copy_ds(left), gen.deep_copy_ds(right), copy.deepcopy(cfg))
        return cfg, seen, (gen.ds_digest(l), gen.ds_digest(r)), ("disparity_map" in r)

    m = pipes.new_machine()
    cfg_a = chk(m, pipe_a)
    cfg_a_then = json.dumps(cfg_a, default=repr, sort_keys=False)
    if case["run_first"]:
        pandora.run(m, gen.deep_copy_ds(left), gen.deep_copy_ds(right), copy.deepcopy(cfg_a))
    cfg_b, seen, dig, has_right = go(m)
    if case["via"] == "section" and json.dumps(cfg_a, default=repr, sort_keys=False) != cfg_a_then:
        ctx.violation("earlier-result-changed-by-a-later-check", f"the configuration returned for {keys} changed when {keys_b} was checked on the "
                      f"same machine: now {list(cfg_a['pipeline'])}", case, situation=f"{case['relation']}-via-{case['via']}")
    # the COMPLETED configuration of B (every default written) handed back with its steps in another order: same verdict as
    # on a new machine (a legal order is accepted with the same content, an illegal one is refused)
    if case["via"] == "section" and len(keys_b) >= 3:
        order = list(keys_b)
        rr = ctx.rng("hist2-perm", case["part"], case["i"])
        a_, b_ = sorted(rr.choice(len(order), 2, replace=False))
        order[a_], order[b_] = order[b_], order[a_]
        perm = {"pipeline": {k: copy.deepcopy(cfg_b["pipeline"][k]) for k in order}}

        def verdict(mm):
            try:
                return "accepted", json.dumps(cc.check_pipeline_section(copy.deepcopy(perm), ml, mr, mm), default=repr, sort_keys=False)
            except Exception as e:  # pylint: disable=broad-except
                return "refused", type(e).__name__
        # (on a machine of its own: a refused check legitimately leaves its machine with transitions, and m is inspected below)
        m3 = pipes.new_machine()
        chk(m3, pipe_b)
        got_v, exp_v = verdict(m3), verdict(pipes.new_machine())
        ctx.gate("completed_configuration_rechecked_with_permuted_steps")
        ctx.gate("completed_configuration_rechecked_in_an_illegal_order", int(exp_v[0] == "refused"))
        if got_v != exp_v:
            ctx.violation("recheck-of-a-permuted-completed-configuration-differs",
                          f"steps {order}: the machine that had checked {keys_b} says {got_v[0]} ({got_v[1][:80]}), a new machine says "
                          f"{exp_v[0]} ({exp_v[1][:80]})", case, situation=exp_v[0])
    _, seen0, dig0, _ = go(pipes.new_machine())
    ctx.gate("history_two_pipelines_on_one_machine")
    ctx.gate("second_pipeline_drops_a_step_of_the_first", int(case["relation"] == "drop"))
    ctx.gate("second_pipeline_reorders_steps_of_the_first", int(case["relation"] == "swap"))
    sit = f"{case['relation']}-via-{case['via']}"
    if list(cfg_b["pipeline"]) != list(keys_b):
        ctx.violation("check-after-another-pipeline-changes-the-steps", f"after {keys}, the check of {keys_b} returned the steps "
                      f"{list(cfg_b['pipeline'])}", case, situation=sit)
    elif seen != seen0:
        ctx.violation("check-after-another-pipeline-differs", f"after {keys}, the check of {keys_b} differs from the check on a new "
                      f"machine: {[a for a, b in zip(seen, seen0) if a != b][0][:300]}", case, situation=sit)
    if dig != dig0:
        ctx.violation("run-after-another-pipeline-differs", f"after {keys}, the run of {keys_b} differs from the run on a new machine",
                      case, situation=sit)
    if has_right != ("validation" in kinds_b):
        ctx.violation("right-product-iff-validation", f"after {keys}, the run of {keys_b} {'returns' if has_right else 'lacks'} "
                      f"right products", case, situation=sit)
    probs = _clean(m)
    if probs:
        ctx.violation("machine-not-reset-in-history", f"{keys} then {keys_b}: {probs}", case)


def finish(coverage, tot, tier):
    fired_c = set(tot["info"].get("check_transitions_fired", []))
    fired_r = set(tot["info"].get("run_transitions_fired", []))
    tot["gates"]["transition_fired_check"] = len(fired_c)
    tot["gates"]["transition_fired_run"] = len(fired_r)
    coverage["situation_classes_reached"] = tot["gates"]
    coverage["exhaustive_subspace"] = f"all words of length <= {L_ENUM[tier]} over 10 kinds (bare first occurrences)"
