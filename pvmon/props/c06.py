"""C06 - refinement moves a disparity by at most half a sample, never for the worse.

Reference model: closed forms of refinement.rst in float64, evaluated on the datasets captured
around every refinement step (direct calls on synthetic volumes and traced pipelines)."""
from __future__ import annotations

import itertools

import numpy as np

from pvmon import gen, pipes, trace

LEVEL = "exploration"
RULE = (
    "exhaustive small scope: every cost triple over {NaN,0,1,2,3}^3 x {min,max} x {vfit,quadratic} x subpix {1,2,4} x "
    "sample position {interior, first, last}; random volumes (quantised/float costs, NaN holes, per-pixel intervals) "
    "with maps made of samples, fractional and half-integer values and any flags; traced pipelines "
    "'... disparity [filter] refinement [refinement.2]' on census/zncc/sad with grids. distinct = (method, type, "
    "subpix, NaN kind, map kind, shape | pipeline); non-trivial = at least one pixel moved and one stopped"
)
ASSUMPTIONS = [
    "when the received disparity is not a sample of the cost volume (after a filter or a previous refinement) the "
    "statement's 'three costs around that sample' is undefined: only the bounds are judged there (|move| <= half a "
    "sample, inside the interval, flags: at most bit 3, and only on an unmoved pixel)",
]
GATES = {
    "reversed_raster_compared": 20, "reversed_raster_with_non_sample_disparities": 5,
    "flat_triple_after_filter_in_pipeline": 1,
    "sample_at_per_pixel_interval_end": 1,
    "max_type": 1,
    "repeated_refinement": 1,
    "exhaustive_triples": 4500,
    "pixels_moved": 1000,
    "pixels_stopped": 1000,
    "non_sample_received": 100,
}
B3 = 8
INVALID = 0b1111000011


def plan(tier, seed):
    specs = [{"name": "triples", "work": "triples"}, {"name": "triples-B", "work": "triples", "mode": "B"}]
    n = 4 if tier == "quick" else 12
    for i in range(n):
        specs.append({"name": f"rand-{i}", "work": "rand", "part": i, "n": 50 if tier == "quick" else 420,
                      "mode": "B" if i % 2 else "A", "timeout": 3000})
    n = 4 if tier == "quick" else 12
    for i in range(n):
        specs.append({"name": f"pipe-{i}", "work": "pipe", "part": i, "n": 15 if tier == "quick" else 125,
                      "mode": "B" if i % 2 else "A", "timeout": 3000})
    return specs


def setup(spec, ctx):
    pipes.register_plugins()


def cases(spec, ctx):
    if spec["work"] == "triples":
        for tm in ("min", "max"):
            for meth in ("vfit", "quadratic"):
                for sp in (1, 2, 4):
                    for pos in ("interior", "first", "last"):
                        yield {"work": "triples", "tm": tm, "method": meth, "subpix": sp, "pos": pos}
    else:
        for i in range(spec["n"]):
            yield {"work": spec["work"], "part": spec["part"], "i": i}


def fit(method, c_m, c_0, c_p, tm):
    """Closed forms of refinement.rst; returns (x, y) in sample units. Costs are float64."""
    s = 1.0 if tm == "min" else -1.0
    a, b, c = s * c_m, s * c_0, s * c_p
    if method == "vfit":
        p = max(a - b, c - b)
        if p == 0:
            return 0.0, c_0
        x = (a - c) / (2 * p)
        y = c + (x - 1) * p
        return x, s * y
    qa = (a - 2 * b + c) / 2
    qb = (c - a) / 2
    if qa == 0:
        return 0.0, c_0
    x = -qb / (2 * qa)
    y = qa * x * x + qb * x + b
    return x, s * y


def judge(ctx, case, method, cv_costs, disps, tm, subpix, d_before, m_before, d_after, m_after, coeff, desc,
          pix_lo=None, pix_hi=None):
    """Compare one refinement execution with the reference, pixel by pixel."""
    rows, cols = d_before.shape
    dmin, dmax = float(disps[0]), float(disps[-1])
    nd = len(disps)
    half = 0.5 / subpix
    n_moved = n_stopped = n_nonsample = 0
    viol = 0
    for y in range(rows):
        for x in range(cols):
            mb, ma = int(m_before[y, x]), int(m_after[y, x])
            db, da = d_before[y, x], d_after[y, x]
            if mb & INVALID:
                same_d = (np.isnan(db) and np.isnan(da)) or db == da
                if not same_d or ma != mb:
                    ctx.violation("invalid-pixel-touched", f"pixel ({y},{x}) flag {mb}: disparity {db!r} -> {da!r}, flag -> {ma}",
                                  case, desc=desc)
                    viol += 1
                continue
            if not np.isfinite(db):
                continue  # a valid pixel without a finite disparity is outside every legal pipeline
            pos = (float(db) - dmin) * subpix
            idx = int(round(pos))
            # exactly a sample (float32 multiples of 1/subpix are exact); a value merely close to one is 'not a sample'
            is_sample = pos == idx and 0 <= idx < nd
            changed_bits = mb ^ ma
            if changed_bits & ~B3:
                ctx.violation("other-bit-changed", f"pixel ({y},{x}) flag {mb} -> {ma}", case, desc=desc)
                viol += 1
            move = float(da) - float(db)
            if abs(move) > half + 1e-6:
                ctx.violation("moved-more-than-half-a-sample", f"pixel ({y},{x}) {db!r} -> {da!r}, subpix {subpix}", case,
                              situation="sample" if is_sample else "non-sample", desc=desc)
                viol += 1
            lo = dmin if pix_lo is None else float(pix_lo[y, x])
            hi = dmax if pix_hi is None else float(pix_hi[y, x])
            if not (lo - 1e-6 <= float(da) <= hi + 1e-6) and (lo - 1e-6 <= float(db) <= hi + 1e-6):
                ctx.violation("refined-outside-interval", f"pixel ({y},{x}) {db!r} -> {da!r} outside [{lo},{hi}]", case,
                              situation="sample" if is_sample else "non-sample", desc=desc)
                viol += 1
            if not is_sample:
                n_nonsample += 1
                if (ma & B3) and not (mb & B3) and move != 0:
                    ctx.violation("bit3-on-moved-pixel", f"pixel ({y},{x}) moved {move} and got bit 3", case, situation="non-sample", desc=desc)
                    viol += 1
                # "left where it was, with bit 3 raised, exactly when [the disparity it received] sits on an end of the interval,
                # a neighbouring cost is NaN or it is not an extremum": a received disparity strictly inside the interval that is not
                # a sample sits on no end and has no neighbouring costs - left where it was, it must not be flagged as stopped
                if (ma & B3) and not (mb & B3) and move == 0 and lo + 1e-6 < float(db) < hi - 1e-6 and dmin + 1e-6 < float(db) < dmax - 1e-6:
                    ctx.violation("stopped-flag-on-a-received-disparity-inside-the-interval",
                                  f"pixel ({y},{x}) received {db!r} (not a sample, strictly inside [{lo},{hi}]), stayed there, flag {mb}->{ma}",
                                  case, situation="non-sample", desc=desc)
                    viol += 1
                continue
            c0 = cv_costs[y, x, idx]
            if np.isnan(c0):
                continue  # not reachable from winner-takes-all: don't-care
            at_end = idx == 0 or idx == nd - 1
            cm = np.nan if idx == 0 else cv_costs[y, x, idx - 1]
            cp = np.nan if idx == nd - 1 else cv_costs[y, x, idx + 1]
            s = 1.0 if tm == "min" else -1.0
            nan_nb = np.isnan(cm) or np.isnan(cp)
            not_ext = (not nan_nb) and (s * c0 > s * cm or s * c0 > s * cp)
            stop = at_end or nan_nb or not_ext
            if pix_lo is not None and not at_end and (abs(float(db) - lo) < 1e-9 or abs(float(db) - hi) < 1e-9):
                ctx.gate("sample_at_per_pixel_interval_end")
            got_b3 = bool(ma & B3)
            if stop:
                n_stopped += 1
                if move != 0 or not got_b3:
                    ctx.violation(
                        "stop-rule",
                        f"pixel ({y},{x}) costs ({cm},{c0},{cp}) [{tm}] sample idx {idx}/{nd}: must stay with bit 3; "
                        f"moved {move}, flag {mb}->{ma}", case,
                        situation="end" if at_end else ("nan-neighbour" if nan_nb else "not-extremum"), desc=desc)
                    viol += 1
                if coeff is not None and not (abs(float(coeff[y, x]) - float(c0)) <= 1e-4 * max(1, abs(float(c0)))):
                    ctx.violation("coefficient-of-stopped-pixel", f"pixel ({y},{x}) coeff {coeff[y, x]!r} vs cost {c0!r}", case, desc=desc)
                    viol += 1
                continue
            # refined pixel
            xs, ys = fit(method, float(cm), float(c0), float(cp), tm)
            if max(abs(float(cm) - float(c0)), abs(float(cp) - float(c0))) < 1e-12 * max(1.0, abs(float(c0))):
                # a triple that is flat up to rounding noise (slopes of the order of 1e-16): the fit is ill-conditioned, the
                # statement's closed form and "stay on the sample" are both acceptable; judged by the bounds above only
                ctx.count("numerically_flat_triples_not_judged")
                continue
            if got_b3 and not (mb & B3):
                ctx.violation("bit3-on-refinable-pixel",
                              f"pixel ({y},{x}) costs ({cm},{c0},{cp}) [{tm}] got bit 3 although interior, finite and extremal",
                              case, situation="flat" if cm == c0 == cp else "regular", desc=desc)
                viol += 1
                continue
            n_moved += 1
            if abs(move * subpix - xs) > 1e-5 + 1e-5 * abs(xs):
                ctx.violation("refined-value",
                              f"pixel ({y},{x}) costs ({cm},{c0},{cp}) [{tm},{method}] shift {move * subpix} samples, "
                              f"closed form {xs}", case, situation="flat" if cm == c0 == cp else "regular", desc=desc)
                viol += 1
            if coeff is not None:
                cf = float(coeff[y, x])
                if not abs(cf - ys) <= 1e-4 * max(1.0, abs(ys)):
                    ctx.violation("interpolated-coefficient", f"pixel ({y},{x}) costs ({cm},{c0},{cp}) coeff {cf}, closed form {ys}",
                                  case, desc=desc)
                    viol += 1
                if s * cf > s * float(c0) + 1e-4 * max(1.0, abs(float(c0))):
                    ctx.violation("coefficient-worse-than-sample", f"pixel ({y},{x}) coeff {cf} worse than sample cost {c0}", case, desc=desc)
                    viol += 1
            if viol > 20:
                return n_moved, n_stopped, n_nonsample
    ctx.gate("pixels_moved", n_moved)
    ctx.gate("pixels_stopped", n_stopped)
    ctx.gate("non_sample_received", n_nonsample)
    return n_moved, n_stopped, n_nonsample


def _disp_ds(d, mask, cv):
    import xarray as xr

    ds = xr.Dataset(
        {"disparity_map": (["row", "col"], np.asarray(d, np.float32).copy()),
         "validity_mask": (["row", "col"], np.asarray(mask, np.uint16).copy())},
        coords={"row": cv.coords["row"].data, "col": cv.coords["col"].data},
    )
    ds.attrs = dict(cv.attrs)
    return ds


def run_case(case, ctx):
    from pandora import refinement

    work = case["work"]
    if work == "triples":
        alphabet = [np.nan, 0.0, 1.0, 2.0, 3.0]
        trip = np.array(list(itertools.product(alphabet, repeat=3)), np.float32)  # 125 x 3
        costs = trip.reshape(5, 25, 3)
        sp = case["subpix"]
        disps = -1 + np.arange(3) / sp if sp > 1 else np.array([-1, 0, 1])
        idx = {"interior": 1, "first": 0, "last": 2}[case["pos"]]
        cv = gen.make_cv(costs, disps, case["tm"], subpix=sp)
        d = np.full((5, 25), disps[idx], np.float32)
        mask = np.zeros((5, 25), np.uint16)
        ds = _disp_ds(d, mask, cv)
        ref_ = refinement.AbstractRefinement(refinement_method=case["method"])
        ref_.subpixel_refinement(cv, ds)
        desc = dict(case)
        judge(ctx, case, case["method"], costs, disps, case["tm"], sp, d, mask, ds["disparity_map"].data,
              ds["validity_mask"].data, ds["interpolated_coeff"].data, desc)
        ctx.case(["triples", case["tm"], case["method"], sp, case["pos"]])
        ctx.gate("exhaustive_triples", 125)
        ctx.gate("max_type", int(case["tm"] == "max"))
        if ctx.evaluations == 1:
            ctx.sample({"case": desc, "first_pixels": ds["disparity_map"].data[0, :6].tolist()})
        return
    if work == "rand":
        rng = ctx.rng("rand", case["part"], case["i"])
        rows, cols = int(rng.integers(1, 24)), int(rng.integers(1, 30))
        nd = int(rng.choice([1, 2, 3, 5, 9, 13]))
        sp = int(rng.choice([1, 2, 4]))
        tm = ["min", "max"][int(rng.integers(0, 2))]
        method = ["vfit", "quadratic"][int(rng.integers(0, 2))]
        nan_kind = ["mixed", "interval", "holes", "none"][int(rng.integers(0, 4))]
        floaty = rng.random() < 0.5
        d0 = int(rng.integers(-4, 2))
        disps = d0 + np.arange(nd) / float(sp)
        costs, lo, hi = gen.synth_costs(rng, rows, cols, nd, nan_kind=nan_kind, floaty=floaty)
        cv = gen.make_cv(costs, disps, tm, subpix=sp)
        map_kind = ["wta", "samples", "fractional", "half"][int(rng.integers(0, 4))]
        if map_kind == "wta":
            fin = ~np.isnan(costs)
            filled = np.where(fin, costs, np.inf if tm == "min" else -np.inf)
            ix = filled.argmin(axis=2) if tm == "min" else filled.argmax(axis=2)
            d = disps[ix]
        elif map_kind == "samples":
            d = disps[rng.integers(0, nd, (rows, cols))]
        elif map_kind == "fractional":
            d = disps[0] + rng.random((rows, cols)) * (disps[-1] - disps[0])
        else:
            d = disps[rng.integers(0, nd, (rows, cols))] + (0.5 / sp) * rng.integers(0, 2, (rows, cols))
            d = np.clip(d, disps[0], disps[-1])
        d = d.astype(np.float32)
        mask = rng.choice(np.array([0, 0, 0, 0, 4, 8, 16, 32, 1, 2, 64, 128, 256, 512, 2048], np.uint16), (rows, cols))
        allnan = np.isnan(costs).all(axis=2)
        mask[allnan] |= 2
        inv_val = np.float32(-9999)
        d[(mask & INVALID) != 0] = inv_val
        ds = _disp_ds(d, mask, cv)
        d_b, m_b = d.copy(), mask.copy()
        ref_ = refinement.AbstractRefinement(refinement_method=method)
        ref_.subpixel_refinement(cv, ds)
        desc = {"shape": [rows, cols], "D": nd, "subpix": sp, "type": tm, "method": method, "nan_kind": nan_kind,
                "floaty": floaty, "map": map_kind}
        pl = ph = None
        if nan_kind == "interval":
            pl, ph = disps[lo], disps[hi]
        nm, ns, nn = judge(ctx, case, method, costs, disps, tm, sp, d_b, m_b, ds["disparity_map"].data,
                           ds["validity_mask"].data, ds["interpolated_coeff"].data, desc, pl, ph)
        ctx.case([desc[k] for k in sorted(desc)], nontrivial=nm > 0 and ns > 0)
        ctx.gate("max_type", int(tm == "max"))
        # the rule is per pixel: the same volume and map with rows and columns reversed must give the reversed outputs
        # (a result that depends on the pixels processed before it does not)
        cv2 = gen.make_cv(np.ascontiguousarray(costs[::-1, ::-1]), disps, tm, subpix=sp)
        ds2 = _disp_ds(np.ascontiguousarray(d_b[::-1, ::-1]), np.ascontiguousarray(m_b[::-1, ::-1]), cv2)
        refinement.AbstractRefinement(refinement_method=method).subpixel_refinement(cv2, ds2)
        ctx.gate("reversed_raster_compared")
        ctx.gate("reversed_raster_with_non_sample_disparities", int(map_kind in ("fractional", "half")))
        for v in ("disparity_map", "validity_mask", "interpolated_coeff"):
            if not gen.same(ds[v].data, ds2[v].data[::-1, ::-1]):
                ctx.violation("refinement-of-a-pixel-depends-on-the-other-pixels",
                              f"{v}: {gen.first_diffs(ds[v].data, ds2[v].data[::-1, ::-1], 3)} (a = as given, b = rows and columns reversed)",
                              case, situation=v, desc=desc)
                break
        return
    if work == "pipe":
        _pipe(case, ctx)
        return
    raise ValueError(work)


def _pipe(case, ctx):
    import pandora

    rng = ctx.rng("pipe", case["part"], case["i"])
    method = ["census", "zncc", "sad"][int(rng.integers(0, 3))]
    w = 3
    sp = int(rng.choice([1, 2, 4]))
    rows, cols = int(rng.integers(6, 22)), int(rng.integers(8, 28))
    tex = ["lowtex", "patches", "random", "steps"][int(rng.integers(0, 4))]
    l, r = gen.stereo_pair(rng, rows, cols, tex, max_shift=2)
    use_grid = rng.random() < 0.4
    lo, hi = -int(rng.integers(1, 4)), int(rng.integers(1, 4))
    disp = gen.grids(rng, rows, cols, lo, hi, "random") if use_grid else (lo, hi)
    lm = gen.mask(rng, rows, cols, "sparse") if rng.random() < 0.3 else None
    left = gen.make_dataset(l, disp, lm)
    right = gen.make_dataset(r, None, None)
    kinds = ["matching_cost", "disparity"]
    params = [{"matching_cost_method": method, "window_size": w, "subpix": sp}, {"disparity_method": "wta"}]
    shape = int(rng.integers(0, 4))
    if shape in (1, 3):
        kinds.append("filter")
        if rng.random() < 0.5:
            params.append({"filter_method": "median", "filter_size": 3})
        else:
            params.append({"filter_method": "bilateral", "sigma_space": 1.0, "sigma_color": 2.0})
    kinds.append("refinement")
    params.append({"refinement_method": ["vfit", "quadratic"][int(rng.integers(0, 2))]})
    if shape in (2, 3):
        kinds.append("refinement")
        params.append({"refinement_method": ["vfit", "quadratic"][int(rng.integers(0, 2))]})
        ctx.gate("repeated_refinement")
    keys = pipes.keys_for(kinds)
    pr = dict(zip(keys, params))
    pipe = pipes.build_pipe(keys, pr)
    m = pipes.new_machine()
    pipes.check(m, pipe, left, right)
    cfg = pipes.checked_cfg(m, pipe)
    st = {}
    desc = {"pipeline": keys, "params": pr, "shape": [rows, cols], "texture": tex, "grid": use_grid, "disp": [lo, hi]}
    pmin = left["disparity"].sel(band_disp="min").data.astype(float)
    pmax = left["disparity"].sel(band_disp="max").data.astype(float)
    tot = [0, 0]

    def before(ev, mm):
        if ev["kind"] == "refinement":
            st["d"] = mm.left_disparity["disparity_map"].data.copy()
            st["m"] = mm.left_disparity["validity_mask"].data.copy()

    def after(ev, mm):
        if ev["kind"] == "refinement":
            cv = mm.left_cv
            costs = cv["cost_volume"].data
            disps = cv.coords["disp"].data
            meth = cfg["pipeline"][ev["step_key"]]["refinement_method"]
            tm = cv.attrs["type_measure"]
            # flat triple reached after a filter?
            if "filter" in kinds:
                pos = np.rint((st["d"] - disps[0]) * sp).astype(int)
                ok = (pos > 0) & (pos < len(disps) - 1) & ((st["m"] & INVALID) == 0)
                yy, xx = np.where(ok)
                if len(yy):
                    c0 = costs[yy, xx, pos[yy, xx]]
                    flat = (costs[yy, xx, pos[yy, xx] - 1] == c0) & (costs[yy, xx, pos[yy, xx] + 1] == c0)
                    ctx.gate("flat_triple_after_filter_in_pipeline", int(flat.any()))
            nm, ns, _ = judge(ctx, case, meth, costs, disps, tm, sp, st["d"], st["m"], mm.left_disparity["disparity_map"].data,
                              mm.left_disparity["validity_mask"].data, mm.left_disparity["interpolated_coeff"].data,
                              dict(desc, step=ev["step_key"]), pmin, pmax)
            tot[0] += nm
            tot[1] += ns
            ctx.gate("max_type", int(tm == "max"))

    trace.Tracer(m, on_before=before, on_after=after)
    pandora.run(m, left, right, cfg)
    ctx.case(["pipe", keys, pr, [rows, cols], tex, use_grid], nontrivial=tot[0] > 0 and tot[1] > 0)
    if ctx.evaluations <= 2:
        ctx.sample({"pipeline": pipe, "shape": [rows, cols], "moved": tot[0], "stopped": tot[1]})
