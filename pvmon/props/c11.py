"""C11 - cross-based aggregation averages costs over the combined support region.

Reference model: brute-force region walk (pvmon.refs.cbca) on the cost volumes captured around
the aggregation step; metamorphic relation for plane independence."""
from __future__ import annotations

import numpy as np

from pvmon import gen, pipes, trace
from pvmon.refs import cbca as ref

LEVEL = "exploration"
RULE = (
    "monoband stereo pairs 5x7..26x40 (steps/edges, patches, gradients, random, low texture), masks and nodata on "
    "either side, SAD / census (exact sums) and ZNCC (tolerance), windows 1/3/5, subpix 1/2/4, cbca_distance 1-8 (9-17 on smooth scenes: regions of more than 256 pixels), "
    "cbca_intensity 1-200; cost volumes captured before/after the aggregation step (left, and right with a validation "
    "step); plane-independence relation on a volume with one plane removed. distinct = (measure, window, subpix, "
    "distance, intensity, masks, shape, texture); non-trivial = volume with NaN costs and arms limited by at least "
    "two different causes"
)
ASSUMPTIONS = [
    "cbca_distance = 1 next to an invalid neighbour is a don't-care of the statement: never generated with masks",
    "float32 integral images: exact for integer costs; ZNCC compared to 1e-4",
]
GATES = {
    "arm_limited_by_distance": 1, "arm_limited_by_intensity": 1, "arm_limited_by_mask": 1, "arm_limited_by_image_side": 1,
    "region_touching_nan_cost": 1, "right_image_with_another_mask_convention": 1, "aggregation_object_reused_after_an_in_place_update": 3, "interval_wider_than_the_image": 1, "support_region_of_256_pixels_or_more": 1, "fractional_disparity_with_masked_right_neighbour": 1, "right_volume_checked": 2,
    "plane_independence_checked": 3, "costs_compared": 20000,
}


def plan(tier, seed):
    specs = []
    n = 8 if tier == "quick" else 16
    for i in range(n):
        specs.append({"name": f"agg-{i}", "work": "agg", "part": i, "n": 14 if tier == "quick" else 180,
                      "mode": "B" if i % 2 else "A", "timeout": 3000})
    return specs


def setup(spec, ctx):
    pipes.register_plugins()


def cases(spec, ctx):
    for i in range(spec["n"]):
        yield {"work": "agg", "part": spec["part"], "i": i}


def run_case(case, ctx):
    import pandora
    from pandora import aggregation

    rng = ctx.rng("agg", case["part"], case["i"])
    method = ["sad", "census", "zncc", "sad"][int(rng.integers(0, 4))]
    w = int(rng.choice([3, 5])) if method == "census" else int(rng.choice([1, 3, 5]))
    subpix = int(rng.choice([1, 2, 4]))
    rows, cols = int(rng.integers(max(w + 2, 5), 24)), int(rng.integers(max(w + 2, 7), 34))
    tex = ["steps", "patches", "gradient", "random", "lowtex"][int(rng.integers(0, 5))]
    l, r = gen.stereo_pair(rng, rows, cols, tex, max_shift=2, noise=int(rng.choice([0, 2, 8])))
    dist = int(rng.integers(1, 9))
    inten = float(rng.choice([1.0, 5.0, 30.0, 200.0]))
    large = case["i"] == 1
    if large:
        # directed constructor: support regions of several hundred pixels (long arms on a smooth scene)
        w = 3 if method == "census" else int(rng.choice([1, 3]))
        rows, cols = int(rng.integers(24, 31)), int(rng.integers(30, 39))
        l, r = gen.stereo_pair(rng, rows, cols, "lowtex", max_shift=2, noise=0)
        dist, inten = int(rng.choice([9, 12, 17])), 200.0
    kinds = ["none", "sparse", "stripes", "fullrow", "fullcol", "border", "exotic", "dense"]
    lmk = kinds[int(rng.integers(0, len(kinds)))] if (rng.random() < 0.6 and dist > 1) else "none"
    rmk = kinds[int(rng.integers(0, len(kinds)))] if (rng.random() < 0.6 and dist > 1) else "none"
    lm, rm = gen.mask(rng, rows, cols, lmk), gen.mask(rng, rows, cols, rmk)
    ik = ["neg", "pos", "straddle", "straddle", "point", "wide", "outside"][int(rng.integers(0, 7))]
    if case["i"] == 2:
        ik = "wide"  # directed: disparities at both ends of the interval leave the image
    if large and ik in ("wide", "outside"):
        ik = "straddle"
    a, b = gen.interval(rng, cols, ik)
    ctx.gate("interval_wider_than_the_image", int(ik == "wide"))
    validation = rng.random() < 0.35
    left = gen.make_dataset(l, (a, b), lm)
    # each dataset carries its own mask convention (valid_pixels / no_data_mask attributes): every fifth case gives the right image
    # another one (valid 5, no data 7, anything else invalid)
    other_convention = case["i"] % 5 == 4 and rm is not None
    if other_convention:
        rm_coded = np.where(rm == 0, 5, np.where(rm == 1, 7, rm + 10)).astype(np.int16)
        right = gen.make_dataset(r, None, rm_coded, extra_attrs={"valid_pixels": 5, "no_data_mask": 7})
    else:
        right = gen.make_dataset(r, None, rm)
    ctx.gate("right_image_with_another_mask_convention", int(other_convention and bool((rm != 0).any())))
    keys = ["matching_cost", "aggregation", "disparity"] + (["validation"] if validation else [])
    params = {"matching_cost": {"matching_cost_method": method, "window_size": w, "subpix": subpix},
              "aggregation": {"aggregation_method": "cbca", "cbca_distance": dist, "cbca_intensity": inten}}
    pipe = pipes.instantiate(keys, params=params)
    desc = {"method": method, "window": w, "subpix": subpix, "distance": dist, "intensity": inten, "left_mask": lmk,
            "right_mask": rmk, "shape": [rows, cols], "texture": tex, "disp": [a, b], "validation": validation}
    m = pipes.new_machine()
    pipes.check(m, pipe, left, right)
    cfg = pipes.checked_cfg(m, pipe)
    st = {}

    def before(ev, mm):
        if ev["kind"] == "aggregation":
            st["b"] = trace.snapshot(mm, ("left_cv", "right_cv"))

    def after(ev, mm):
        if ev["kind"] == "aggregation":
            st["a"] = trace.snapshot(mm, ("left_cv", "right_cv"))

    trace.Tracer(m, on_before=before, on_after=after)
    lc, rc = gen.deep_copy_ds(left), gen.deep_copy_ds(right)
    pandora.run(m, left, right, cfg)
    if "a" not in st:
        ctx.inconclusive.append("aggregation hook never reached")
        return
    lval = np.ones((rows, cols), bool) if lm is None else (lm == 0)
    rval = np.ones((rows, cols), bool) if rm is None else (rm == 0)
    sides = [("left", "left_cv", lc["im"].data, rc["im"].data, lval, rval)]
    if validation:
        sides.append(("right", "right_cv", rc["im"].data, lc["im"].data, rval, lval))
    nontrivial = False
    for side, name, A, B, aval, bval in sides:
        cvb, cva = st["b"][name], st["a"][name]
        cin = cvb["cost_volume"].data
        got = cva["cost_volume"].data
        disps = cvb.coords["disp"].data
        off = int(cvb.attrs["offset_row_col"])
        exp, la = ref.reference(cin.astype(np.float64), disps, A, B, aval, bval, off, subpix, dist, inten)
        ctx.gate("costs_compared", int(got.size))
        if not np.array_equal(np.isnan(got), np.isnan(cin)):
            i = np.argwhere(np.isnan(got) != np.isnan(cin))[0]
            ctx.violation("nan-pattern-changed-by-aggregation",
                          f"{side}: cost ({i.tolist()}) was {cin[tuple(i)]!r}, is {got[tuple(i)]!r}", case,
                          situation="became-nan" if np.isnan(got[tuple(i)]) else "nan-became-finite", desc=desc)
            continue
        fin = ~np.isnan(cin)
        tol = 1e-4 if method == "zncc" else 2e-6
        bad = fin & ~np.isclose(got, exp, rtol=tol, atol=tol)
        if bad.any():
            i = np.argwhere(bad)[0]
            ctx.violation("aggregated-cost",
                          f"{side} {method} w={w} subpix={subpix} distance={dist} intensity={inten}: {int(bad.sum())} costs differ; "
                          f"({i.tolist()}) disparity {disps[i[2]]}: observed {got[tuple(i)]!r}, reference {exp[tuple(i)]!r}", case,
                          situation="fractional" if disps[i[2]] % 1 else "integer", desc=desc)
        if side == "right":
            ctx.gate("right_volume_checked")
        # situation classes (left arms of the reference)
        if side == "left":
            h, w_ = la.shape[:2]
            ctx.gate("support_region_of_256_pixels_or_more",
                     int(((la[:, :, 0] + la[:, :, 1] + 1) * (la[:, :, 2] + la[:, :, 3] + 1)).max() >= 256))
            ctx.gate("arm_limited_by_distance", int((la == dist - 1).any() and dist > 1))
            ctx.gate("arm_limited_by_image_side", int((la[:, 0, 0] == 0).any()))
            ctx.gate("arm_limited_by_mask", int(lmk != "none" and (la[:, :, :2] < dist - 1).any()))
            ctx.gate("arm_limited_by_intensity", int(inten <= 5.0 and (la < max(dist - 1, 1)).any()))
            ctx.gate("region_touching_nan_cost", int(np.isnan(cin).any() and fin.any()))
            ctx.gate("fractional_disparity_with_masked_right_neighbour", int(subpix > 1 and rmk != "none"))
            nontrivial = bool(np.isnan(cin).any() and fin.any() and (la.max() > la.min()))
    # plane independence: aggregating the volume without its last plane gives the same remaining planes
    if case["i"] % 3 == 0 and "b" in st:
        cvb = st["b"]["left_cv"]
        if cvb.sizes["disp"] > 1:
            sub = cvb.isel(disp=slice(0, cvb.sizes["disp"] - 1)).copy(deep=True)
            sub.attrs = dict(cvb.attrs)
            agg = aggregation.AbstractAggregation(**cfg["pipeline"]["aggregation"])
            agg.cost_volume_aggregation(lc, rc, sub)
            full = st["a"]["left_cv"]["cost_volume"].data[:, :, :-1]
            ctx.gate("plane_independence_checked")
            if not gen.same(sub["cost_volume"].data, full):
                ctx.violation("planes-not-independent", f"diffs {gen.first_diffs(full, sub['cost_volume'].data, 3)}", case, desc=desc)
    # step-by-step use of the API: ONE aggregation object serves several calls (left->right, right->left, then the same
    # dataset objects after an in-place update): each result must be the one a new object gives
    if case["i"] % 3 == 1 and "b" in st:
        agg = aggregation.AbstractAggregation(**cfg["pipeline"]["aggregation"])
        seq = [("left_cv", lc, rc)] + ([("right_cv", rc, lc)] if validation else [("left_cv", lc, rc)])
        for name, A_, B_ in seq:
            cvx = gen.deep_copy_ds(st["b"][name])
            agg.cost_volume_aggregation(A_, B_, cvx)
            if not gen.same(cvx["cost_volume"].data, st["a"][name]["cost_volume"].data):
                ctx.violation("reused-aggregation-object-differs", f"{name}: {gen.first_diffs(st['a'][name]['cost_volume'].data, cvx['cost_volume'].data, 3)} "
                              "(a = new object in the pipeline, b = reused object)", case, situation="same-inputs", desc=desc)
        # in-place update of the right dataset (samples and, when it has one, mask), then the whole pipeline again for the
        # reference (new objects) and the reused object on the new volume
        rng2 = ctx.rng("agg-update", case["part"], case["i"])
        y0, x0 = int(rng2.integers(0, max(1, rows - 3))), int(rng2.integers(0, max(1, cols - 3)))
        rc["im"].data[y0:y0 + 3, x0:x0 + 3] = np.float32(255.0) - rc["im"].data[y0:y0 + 3, x0:x0 + 3]
        if "msk" in rc and dist > 1:
            rc["msk"].data[(y0 + 4) % rows, :] = 1
        st2 = {}
        m2 = pipes.new_machine()
        pipes.check(m2, pipe, lc, rc)
        trace.Tracer(m2, on_before=lambda ev, mm: st2.__setitem__("b", trace.snapshot(mm, ("left_cv",))) if ev["kind"] == "aggregation" else None,
                     on_after=lambda ev, mm: st2.__setitem__("a", trace.snapshot(mm, ("left_cv",))) if ev["kind"] == "aggregation" else None)
        lc2, rc2 = gen.deep_copy_ds(lc), gen.deep_copy_ds(rc)
        pandora.run(m2, lc2, rc2, pipes.checked_cfg(m2, pipe))
        cvx = gen.deep_copy_ds(st2["b"]["left_cv"])
        agg.cost_volume_aggregation(lc, rc, cvx)
        ctx.gate("aggregation_object_reused_after_an_in_place_update")
        if not gen.same(cvx["cost_volume"].data, st2["a"]["left_cv"]["cost_volume"].data):
            ctx.violation("reused-aggregation-object-differs", f"{gen.first_diffs(st2['a']['left_cv']['cost_volume'].data, cvx['cost_volume'].data, 3)} "
                          "(a = new object, b = object reused after the right dataset was updated in place)", case,
                          situation="after-in-place-update", desc=desc)
    ctx.case([desc[k] for k in sorted(desc)], nontrivial=nontrivial)
    if ctx.evaluations <= 2:
        ctx.sample({"case": desc})
