"""C19 - saved products equal the computed ones and the saved configuration replays.

Metamorphic / reference: the datasets handed to save_results are captured (wrapper) and compared
with an independent read of the output tree; cfg/config.json is fed back and must reproduce the
same rasters; a share of the cases goes through the console entry point as a subprocess."""
from __future__ import annotations

import copy
import json
import math
import os
import shutil
import subprocess
import sys

import numpy as np

from pvmon import gen, pipes, rasters

LEVEL = "exploration"
RULE = (
    "configurations written by the harness (pipelines with 0-3 confidence bands, with/without validation and filling, "
    "invalid_disparity -9999 / NaN / 0.5, integer interval or grids on both sides, mono/multiband, georeferenced or not, "
    "masks, nodata) run through pandora.main in-process with save_results wrapped, and through 'python -m "
    "pandora.Pandora' as a subprocess; the output tree is read back with rasterio; the saved configuration is replayed. "
    "distinct = (pipeline keys, parameters, input kind); non-trivial = at least one confidence band or a validation step"
)
ASSUMPTIONS = [
    "the internal 'indicator' parameter of the confidence steps (derived from the step name at run time) is not part of "
    "the completed configuration compared with cfg/config.json",
]
GATES = {
    "nan_invalid_disparity": 1, "float_parameters_with_more_than_six_decimals": 1, "verbose_command_line_runs": 1, "reference_system_without_authority_code": 1, "validation_step_with_a_suffixed_name_only": 1, "infinite_invalid_disparity": 1, "minus_infinity_invalid_disparity": 1, "two_or_more_bands": 1, "grids": 1, "georeferenced_input": 1, "validation_present": 2,
    "validation_absent": 2, "replayed_configurations": 5, "subprocess_runs": 1, "rasters_compared": 20, "right_input_with_its_own_georeferencing": 1,
    "save_results_on_synthetic_products": 20, "product_heights_around_128_256_512": 5,
}


def plan(tier, seed):
    specs = []
    n = 3 if tier == "quick" else 10
    for i in range(n):
        specs.append({"name": f"cli-{i}", "work": "cli", "part": i, "n": 10 if tier == "quick" else 60, "timeout": 3000})
    specs.append({"name": "subprocess", "work": "sub", "n": 2 if tier == "quick" else 25, "timeout": 3000})
    for i in range(2 if tier == "quick" else 6):
        specs.append({"name": f"save-{i}", "work": "save", "part": i, "n": 24 if tier == "quick" else 120, "timeout": 3000})
    return specs


def setup(spec, ctx):
    pass


def cases(spec, ctx):
    for i in range(spec["n"]):
        yield {"work": spec["work"], "part": spec.get("part", 0), "i": i}


def eq(a, b):
    if isinstance(a, float) and isinstance(b, float):
        return (math.isnan(a) and math.isnan(b)) or a == b
    if isinstance(a, dict) and isinstance(b, dict):
        return list(a) == list(b) and all(eq(a[k], b[k]) for k in a)
    if isinstance(a, (list, tuple)) and isinstance(b, (list, tuple)):
        return len(a) == len(b) and all(eq(x, y) for x, y in zip(a, b))
    if isinstance(a, (int, float)) and isinstance(b, (int, float)) and not isinstance(a, bool) and not isinstance(b, bool):
        return float(a) == float(b)
    return a == b


def strip_indicator(cfg):
    c = copy.deepcopy(cfg)
    for k, p in c.get("pipeline", {}).items():
        if isinstance(p, dict):
            p.pop("indicator", None)
    return c


def build_config(rng, d, directed=False, tall=0):
    rows, cols = int(rng.integers(8, 22)), int(rng.integers(10, 26))
    if tall:
        rows, cols = tall, int(rng.integers(10, 14))
    nb = 1 if rng.random() < 0.65 else 3
    l, r = gen.stereo_pair(rng, rows, cols, gen.TEXTURES[int(rng.integers(0, 5))], max_shift=2, bands=nb)
    geo = bool(rng.integers(0, 2)) or directed
    names = ["r", "g", "b"] if nb == 3 else None
    # reference systems of several flavours: an EPSG code, a projection on an ellipsoid without datum (no authority code), a
    # geographic system, a local engineering-like transverse Mercator
    crs = ["EPSG:32631", "+proj=utm +zone=31 +ellps=WGS84 +units=m +no_defs", "EPSG:4326",
           "+proj=tmerc +lat_0=12 +lon_0=3 +k=0.9996 +x_0=1000 +y_0=2000 +ellps=GRS80 +units=m +no_defs",
           "+proj=lcc +lat_0=46.5 +lon_0=3 +lat_1=49 +lat_2=44 +x_0=700000 +y_0=6600000 +ellps=GRS80 +units=m +no_defs"][int(rng.integers(0, 5))]
    if tall:
        crs = "+proj=utm +zone=31 +ellps=WGS84 +units=m +no_defs"
        geo = True
    left = {"img": rasters.write_tif(os.path.join(d, "left.tif"), l, descriptions=names, georef=geo, crs=crs)}
    shifted = geo and (rng.random() < 0.6 or directed)
    right = {"img": rasters.write_tif(os.path.join(d, "right.tif"), r, descriptions=names, georef=geo, crs=crs,
                                      origin=(500012.5, 4800003.0) if shifted else (500000.0, 4800000.0))}
    if rng.random() < 0.3:
        left["mask"] = rasters.write_tif(os.path.join(d, "lmask.tif"), (rng.random((rows, cols)) < 0.1).astype(np.int16), "int16")
    if rng.random() < 0.3:
        left["nodata"] = "NaN" if rng.random() < 0.5 else 0
    validation = rng.random() < 0.55 or directed
    use_grid = rng.random() < 0.35
    if use_grid:
        gmin, gmax = gen.grids(rng, rows, cols, -3, 2, "random")
        left["disp"] = rasters.write_tif(os.path.join(d, "lgrid.tif"), np.array([gmin, gmax]), "float32")
        if validation or rng.random() < 0.4:
            rmin, rmax = gen.grids(rng, rows, cols, -2, 3, "random")
            right["disp"] = rasters.write_tif(os.path.join(d, "rgrid.tif"), np.array([rmin, rmax]), "float32")
    else:
        a = -int(rng.integers(0, 4))
        left["disp"] = [a, a + int(rng.integers(1, 5))]
    keys, params, info = pipes.random_pipeline(rng, rows, cols, validation=validation, max_post=3, allow_mfi=False,
                                               allow_cbca=(nb == 1), subpix_choices=(1, 2))
    sfx_kind = [None, None, "validation-only", "all"][int(rng.integers(0, 4))] if not directed else "validation-only"
    if sfx_kind:
        keys, params = pipes.suffix_bare_steps(keys, params, {"validation"} if sfx_kind == "validation-only" else set(keys),
                                               ["cc", "1", "v1.5", "last step"][int(rng.integers(0, 4))])
    inv = [-9999, "NaN", 0.5, "-inf", "inf", -12345.5, -1.2345678e-3][int(rng.integers(0, 7))]
    long_floats = rng.random() < 0.3 or (tall == 128)
    if long_floats:
        # legal float parameters with more than six significant decimals: the saved configuration must hold them exactly
        inv = -1.2345678e-3
        for k in keys:
            if pipes.kind_of(k) == "validation":
                params[k]["cross_checking_threshold"] = 0.9999996
            if params[k].get("filter_method") == "bilateral":
                params[k]["sigma_color"] = 1.23456789
    if directed:
        inv = "-inf"
    if tall and not long_floats:
        inv = "NaN"  # directed constructor of the NaN class (case 1 of the command-line shards)
    for k in keys:
        if pipes.kind_of(k) == "disparity":
            params[k]["invalid_disparity"] = inv
        if pipes.kind_of(k) == "matching_cost" and nb == 3:
            params[k]["band"] = "g"
    pipe = pipes.build_pipe(keys, params)
    user = {"input": {"left": left, "right": right}, "pipeline": pipe}
    n_conf = sum(1 for k in keys if pipes.kind_of(k) == "cost_volume_confidence")
    desc = {"pipeline": keys, "shape": [rows, cols], "bands": nb, "georef": geo, "grid": use_grid, "validation": validation,
            "invalid_disparity": inv, "n_conf_steps": n_conf, "right_georef_differs": bool(shifted),
            "suffixed_validation_only": bool(validation and "validation" not in keys), "crs": crs if geo else None}
    return user, desc


def read_tree(out):
    tree = {}
    for root, _, fs in os.walk(out):
        for f in fs:
            tree[os.path.relpath(os.path.join(root, f), out)] = os.path.join(root, f)
    return tree


def same_crs(a, b):
    """Reference systems compared as rasterio does (definition, not text: the text form of a system without authority code is
    lossy)."""
    if a is None or b is None:
        return a is None and b is None
    try:
        from rasterio.crs import CRS

        ca = a if isinstance(a, CRS) else CRS.from_user_input(a)
        cb = b if isinstance(b, CRS) else CRS.from_user_input(b)
        return ca == cb and ca.to_wkt() == cb.to_wkt()
    except Exception:  # pylint: disable=broad-except
        return str(a) == str(b)


def judge_tree(ctx, case, desc, out, saved_left, saved_right, input_profile, right_profile=None, expect_cfg=True):
    tree = read_tree(out)
    validation = desc["validation"]
    expect = {"left_disparity.tif", "left_validity_mask.tif"} | ({"cfg/config.json"} if expect_cfg else set())
    if saved_left is not None and "confidence_measure" in saved_left:
        expect.add("left_confidence_measure.tif")
    if validation:
        expect |= {"right_disparity.tif", "right_validity_mask.tif"}
        if saved_right is not None and "confidence_measure" in saved_right:
            expect.add("right_confidence_measure.tif")
    got = {k for k in tree if not k.endswith(".aux.xml")}
    if saved_left is None:
        # subprocess run: the confidence files cannot be predicted from here, only the iff rule on right_*
        got_cmp = {k for k in got if "confidence" not in k}
        exp_cmp = {k for k in expect if "confidence" not in k}
    else:
        got_cmp, exp_cmp = got, expect
    if got_cmp != exp_cmp:
        ctx.violation("output-files", f"files {sorted(got)}, expected {sorted(expect)}", case,
                      situation="right-products" if any("right" in x for x in got_cmp ^ exp_cmp) else "other", desc=desc)
    for side, ds in (("left", saved_left), ("right", saved_right)):
        if ds is None or "disparity_map" not in ds:
            continue
        for fname, var, dtype in ((f"{side}_disparity.tif", "disparity_map", "float32"), (f"{side}_validity_mask.tif", "validity_mask", "uint16"),
                                  (f"{side}_confidence_measure.tif", "confidence_measure", "float32")):
            if var not in ds:
                continue
            if fname not in tree:
                continue
            arr, descs, prof = rasters.read_all(tree[fname])
            ctx.gate("rasters_compared")
            if prof["dtype"] != dtype:
                ctx.violation("raster-dtype", f"{fname}: {prof['dtype']}, expected {dtype}", case, situation=fname, desc=desc)
            mem = ds[var].data
            mem = np.moveaxis(mem, 2, 0) if mem.ndim == 3 else mem[None]
            if not gen.same(arr.astype(np.float64), mem.astype(np.float64)):
                ctx.violation("raster-differs-from-memory", f"{fname}: {gen.first_diffs(mem, arr, 3)} (a=in memory, b=file)", case,
                              situation=fname, desc=desc)
            if var == "confidence_measure":
                names = [str(x) for x in ds["confidence_measure"]["indicator"].data]
                if [d_ for d_ in descs] != names:
                    ctx.violation("band-descriptions", f"{fname}: descriptions {descs}, indicators {names}", case, desc=desc)
                ctx.gate("two_or_more_bands", int(len(names) >= 2))
            if desc["georef"]:
                ip = right_profile if (side == "right" and right_profile is not None) else input_profile
                if not same_crs(prof.get("crs"), ip.get("crs")) or prof.get("transform") != ip.get("transform"):
                    ctx.violation("georeferencing", f"{fname}: crs {prof.get('crs')} transform {prof.get('transform')} vs {side} input "
                                  f"{ip.get('crs')} {ip.get('transform')}", case, situation=fname, desc=desc)
    return tree


def arrays_of(tree):
    out = {}
    for k, p in tree.items():
        if k.endswith(".tif"):
            a, descs, prof = rasters.read_all(p)
            out[k] = (a, descs, str(prof["dtype"]))
    return out


SAVE_SIZES = [1, 2, 3, 7, 31, 64, 100, 127, 128, 129, 130, 255, 256, 257, 258, 385, 511, 512, 513]


def _save(case, ctx):
    """save_results on synthetic products of many sizes (sizes around the usual strip / block sizes of raster writers)."""
    import xarray as xr
    from affine import Affine
    from pandora import common

    rng = ctx.rng("save", case["part"], case["i"])
    k = case["part"] * 1000 + case["i"]
    rows = SAVE_SIZES[k % len(SAVE_SIZES)]
    cols = SAVE_SIZES[(k // len(SAVE_SIZES) + 3 * case["part"]) % len(SAVE_SIZES)] if case["i"] % 3 == 0 else int(rng.integers(1, 40))
    n_ind = int(rng.integers(0, 4))
    validation = bool(rng.integers(0, 2))
    geo = bool(rng.integers(0, 2))

    def product(origin):
        d = (rng.integers(-40, 41, (rows, cols)) * 0.25).astype(np.float32)
        d[rng.random((rows, cols)) < 0.05] = np.nan
        ds = xr.Dataset({"disparity_map": (["row", "col"], d),
                         "validity_mask": (["row", "col"], rng.integers(0, 4096, (rows, cols)).astype(np.uint16))},
                        coords={"row": np.arange(rows), "col": np.arange(cols)})
        if n_ind:
            c = rng.normal(0, 3, (rows, cols, n_ind)).astype(np.float32)
            c[rng.random(c.shape) < 0.05] = np.nan
            c[rng.random(c.shape) < 0.01] = np.inf
            ds.coords["indicator"] = [f"confidence_from_x{j}" for j in range(n_ind)]
            ds["confidence_measure"] = xr.DataArray(c, dims=["row", "col", "indicator"])
        ds.attrs = {"crs": "EPSG:32631" if geo else None, "transform": Affine(0.5, 0.0, origin[0], 0.0, -0.5, origin[1]) if geo else None}
        return ds

    left = product((500000.0, 4800000.0))
    right = product((500012.5, 4800003.0)) if validation else xr.Dataset()
    if geo:
        import rasterio
        left.attrs["crs"] = rasterio.crs.CRS.from_string("EPSG:32631")
        if validation:
            right.attrs["crs"] = rasterio.crs.CRS.from_string("EPSG:32631")
    out = os.path.join(ctx.workdir, f"save{case['part']}_{case['i']}")
    desc = {"work": "save_results on synthetic products", "shape": [rows, cols], "indicators": n_ind, "validation": validation, "georef": geo}
    lsnap, rsnap = gen.deep_copy_ds(left), gen.deep_copy_ds(right)
    import warnings
    with warnings.catch_warnings():
        warnings.simplefilter("ignore")
        common.save_results(left, right, out)
    ctx.case(["save", rows, cols, n_ind, validation, geo], nontrivial=n_ind > 0)
    ctx.gate("save_results_on_synthetic_products")
    ctx.gate("product_heights_around_128_256_512", int(rows in (127, 128, 129, 255, 256, 257, 511, 512, 513)))
    prof_l = {"crs": left.attrs["crs"], "transform": left.attrs["transform"]}
    prof_r = {"crs": right.attrs.get("crs"), "transform": right.attrs.get("transform")}
    judge_tree(ctx, case, desc, out, lsnap, rsnap if validation else None, prof_l, prof_r, expect_cfg=False)
    shutil.rmtree(out, ignore_errors=True)


def run_case(case, ctx):
    import pandora
    from pandora import check_configuration, common

    if case["work"] == "save":
        return _save(case, ctx)

    rng = ctx.rng(case["work"], case["part"], case["i"])
    d = os.path.join(ctx.workdir, f"{case['work']}{case['i']}")
    user, desc = build_config(rng, d, directed=(case["i"] == 0 and case["work"] == "cli"),
                              tall=[129, 257, 128][case["part"] % 3] if (case["i"] == 1 and case["work"] == "cli") else 0)
    cfg_path = os.path.join(d, "user.json")
    os.makedirs(d, exist_ok=True)
    with open(cfg_path, "w") as f:
        json.dump(user, f)
    out = os.path.join(d, "out")
    _, _, in_prof = rasters.read_all(user["input"]["left"]["img"])
    _, _, in_prof_r = rasters.read_all(user["input"]["right"]["img"])
    ctx.gate("right_input_with_its_own_georeferencing", int(desc["right_georef_differs"] and desc["validation"]))
    ctx.gate("nan_invalid_disparity", int(desc["invalid_disparity"] == "NaN"))
    ctx.gate("reference_system_without_authority_code", int(bool(desc["crs"]) and not desc["crs"].startswith("EPSG")))
    ctx.gate("float_parameters_with_more_than_six_decimals", int(desc["invalid_disparity"] == -1.2345678e-3))
    ctx.gate("validation_step_with_a_suffixed_name_only", int(desc["suffixed_validation_only"]))
    ctx.gate("infinite_invalid_disparity", int(desc["invalid_disparity"] in ("inf", "-inf")))
    ctx.gate("minus_infinity_invalid_disparity", int(desc["invalid_disparity"] == "-inf"))
    ctx.gate("grids", int(desc["grid"]))
    ctx.gate("georeferenced_input", int(desc["georef"]))
    ctx.gate("validation_present", int(desc["validation"]))
    ctx.gate("validation_absent", int(not desc["validation"]))
    ctx.case([desc["pipeline"], user["pipeline"], desc["bands"], desc["grid"], desc["georef"]],
             nontrivial=desc["n_conf_steps"] > 0 or desc["validation"])
    if case["work"] == "sub":
        env = dict(os.environ)
        # every other command-line run is verbose (-v): what is logged must not change what is written
        verbose = case["i"] % 2 == 1
        ctx.gate("verbose_command_line_runs", int(verbose))
        proc = subprocess.run([sys.executable, "-m", "pandora.Pandora", cfg_path, out] + (["-v"] if verbose else []), env=env,
                              capture_output=True, text=True, timeout=900)
        if proc.returncode != 0:
            ctx.violation("cli-failed", f"console entry point exited {proc.returncode}: {proc.stderr[-600:]}", case, desc=desc)
            return
        ctx.gate("subprocess_runs")
        tree = judge_tree(ctx, case, desc, out, None, None, in_prof)
        # the same configuration in-process must write the same rasters
        captured = {}
        orig = common.save_results

        def spy(left, right, output):
            captured["l"], captured["r"] = gen.deep_copy_ds(left), gen.deep_copy_ds(right)
            return orig(left, right, output)
        common.save_results = spy
        try:
            out2 = os.path.join(d, "out_inproc")
            pandora.main(cfg_path, out2, False)
        finally:
            common.save_results = orig
        a1, a2 = arrays_of(tree), arrays_of(read_tree(out2))
        if set(a1) != set(a2) or any(not gen.same(a1[k][0], a2[k][0]) or a1[k][1] != a2[k][1] for k in a1 if k in a2):
            ctx.violation("subprocess-differs-from-in-process", f"files {sorted(a1)} vs {sorted(a2)}", case, desc=desc)
        return
    captured = {}
    orig = common.save_results

    def spy(left, right, output):
        captured["l"], captured["r"] = gen.deep_copy_ds(left), gen.deep_copy_ds(right)
        return orig(left, right, output)

    common.save_results = spy
    try:
        pandora.main(cfg_path, out, False)
    finally:
        common.save_results = orig
    if "l" not in captured:
        ctx.inconclusive.append("save_results hook never reached")
        return
    right_ds = captured["r"] if len(captured["r"].sizes) else None
    if (right_ds is not None) != desc["validation"]:
        ctx.violation("right-dataset-iff-validation", f"right dataset {'present' if right_ds is not None else 'empty'} with validation="
                      f"{desc['validation']}", case, desc=desc)
    tree = judge_tree(ctx, case, desc, out, captured["l"], right_ds, in_prof, in_prof_r)
    # saved configuration
    cfgfile = tree.get("cfg/config.json")
    if cfgfile is None:
        return
    try:
        saved = json.load(open(cfgfile))
    except Exception as e:  # pylint: disable=broad-except
        ctx.violation("saved-configuration-not-loadable", repr(e), case, desc=desc)
        return
    completed = check_configuration.check_conf(copy.deepcopy(user), pipes.new_machine())
    if "margins" not in saved:
        ctx.violation("saved-configuration-lacks-margins", f"keys {list(saved)}", case, desc=desc)
    sv = {k: v for k, v in saved.items() if k != "margins"}
    if not eq(strip_indicator(sv), strip_indicator(json.loads(json.dumps(completed)))):
        diff = []
        for sec in ("input", "pipeline"):
            a_, b_ = strip_indicator(sv).get(sec), strip_indicator(json.loads(json.dumps(completed))).get(sec)
            if not eq(a_, b_):
                diff.append({sec: {"saved": a_, "completed": b_}})
        ctx.violation("saved-configuration-differs-from-completed", f"{json.dumps(diff, default=str)[:700]}", case,
                      situation="input" if any("input" in x for x in diff) else "pipeline", desc=desc)
    # replay
    out_r = os.path.join(d, "replay")
    try:
        pandora.main(cfgfile, out_r, False)
    except Exception as e:  # pylint: disable=broad-except
        ctx.violation("saved-configuration-refused-on-replay", f"{type(e).__name__}: {str(e)[:400]}", case,
                      situation=type(e).__name__, desc=desc)
        return
    ctx.gate("replayed_configurations")
    a1, a2 = arrays_of(tree), arrays_of(read_tree(out_r))
    if set(a1) != set(a2):
        ctx.violation("replay-writes-other-files", f"{sorted(a1)} vs {sorted(a2)}", case, desc=desc)
    else:
        for k in a1:
            if not gen.same(a1[k][0], a2[k][0]) or a1[k][1] != a2[k][1] or a1[k][2] != a2[k][2]:
                ctx.violation("replay-differs", f"{k}: {gen.first_diffs(a1[k][0], a2[k][0], 3)}", case, situation=k, desc=desc)
    if ctx.evaluations <= 2:
        ctx.sample({"case": desc, "files": sorted(tree)})
