"""C18 - runs are reproducible and side-effect free whatever the threading.

Metamorphic monitor over schedules and histories: the same (pipeline, inputs) cases are executed in
worker processes started with different NUMBA_NUM_THREADS / PANDORA_NUMBA_PARALLEL settings (and one
without the harness's numba-cache patch); product digests are compared across processes, across
repetitions, across fresh / reused machines, and across histories that interleave other pipelines on
other machine objects. Input datasets are digested before and after every run."""
from __future__ import annotations

import copy
import json

import numpy as np

from pvmon import gen, pipes, trace

LEVEL = "exploration"
RULE = (
    "pipelines covering every parallel numba kernel (refinement loop, ambiguity, risk, interval bounds, interval "
    "regularisation) plus cbca, filters, validation with filling, on inputs whose row counts are not multiples of the "
    "thread counts; each case runs in 8 processes: NUMBA_NUM_THREADS in {1,2,3,4,8,16} with the parallel transform, one "
    "with PANDORA_NUMBA_PARALLEL=False, one without the harness's forced numba cache; 3 repetitions per process (fresh and "
    "reused machine) under CPU load from the sibling shards; histories interleaving check/run of other pipelines (every "
    "step class, both matching-cost families) on other machines. distinct = (pipeline, input) cases x settings; "
    "non-trivial = the case exercises at least one parallel kernel"
)
ASSUMPTIONS = [
    "schedules are sampled (thread count, load, repetition), not enumerated: a race needing a rare interleaving can be "
    "missed; a deterministic dependence on the thread count or on the parallel transform cannot",
    "with PANDORA_NUMBA_PARALLEL=False only the disparity map and the pre-validation flags are claimed equal",
]
GATES = {
    "settings_compared_per_case": 6, "cases_compared_across_processes": 5, "kernel_refinement": 1, "kernel_ambiguity": 1,
    "kernel_risk": 1, "kernel_interval_bounds": 1, "kernel_regularisation": 1, "histories_with_other_matching_cost_class": 1,
    "multiband_mask_inputs": 1, "input_digests_compared": 20, "repetitions_compared": 20,
    "history_of_a_pipeline_without_disparity_step": 1, "history_of_a_multiscale_pipeline": 1,
}
SETTINGS = [("t1", 1, True), ("t2", 2, True), ("t3", 3, True), ("t4", 4, True), ("t8", 8, True), ("t16", 16, True), ("seq", 2, False)]


def plan(tier, seed):
    specs = []
    n_cases = 8 if tier == "quick" else 40
    for name, thr, par in SETTINGS:
        specs.append({"name": f"runs-{name}", "work": "runs", "threads": thr, "parallel": par, "n_cases": n_cases,
                      "reps": 3 if tier == "quick" else 5, "timeout": 3000, "setting": name})
    specs.append({"name": "runs-nocache", "work": "runs", "threads": 4, "parallel": True, "n_cases": min(n_cases, 8), "reps": 2,
                  "env": {"PVMON_NO_FORCE_CACHE": "1"}, "timeout": 3000, "setting": "nocache"})
    # another scheduler for the same prange loops: numba's built-in workqueue layer instead of OpenMP
    specs.append({"name": "runs-workqueue", "work": "runs", "threads": 5, "parallel": True, "n_cases": n_cases, "reps": 2,
                  "env": {"NUMBA_THREADING_LAYER": "workqueue"}, "timeout": 3000, "setting": "wq5"})
    nh = 2 if tier == "quick" else 8
    for i in range(nh):
        specs.append({"name": f"hist-{i}", "work": "hist", "part": i, "n": 12 if tier == "quick" else 75, "threads": [2, 5, 16][i % 3],
                      "timeout": 3000})
    return specs


def setup(spec, ctx):
    pipes.register_plugins()


def cases(spec, ctx):
    if spec["work"] == "runs":
        order = list(range(spec["n_cases"]))
        if spec["setting"] in ("t3", "t8"):
            order.reverse()  # class- or module-level state left by one pipeline must not change the others
        elif spec["setting"] == "t4":
            order = order[1::2] + order[0::2]
        for c in order:
            yield {"work": "runs", "c": c, "reps": spec["reps"], "setting": spec["setting"]}
    else:
        for i in range(spec["n"]):
            yield {"work": "hist", "part": spec["part"], "i": i}


def make_case(ctx, c):
    """Deterministic (pipeline, inputs) number c - identical in every process."""
    rng = ctx.rng("case", c)
    rows = [37, 43, 29, 61, 53, 47, 71, 33][c % 8] + int(rng.integers(0, 3))
    cols = [53, 41, 67, 47, 59, 38, 45, 50][c % 8] + int(rng.integers(0, 3))
    nb = 3 if c % 5 == 4 else 1
    l, r = gen.stereo_pair(rng, rows, cols, gen.TEXTURES[c % 5], max_shift=3, bands=nb)
    lm = gen.mask(rng, rows, cols, ["sparse", "none", "border", "exotic", "sparse"][c % 5])
    rm = gen.mask(rng, rows, cols, ["none", "sparse"][c % 2])
    a, b = [(-4, 3), (-3, 0), (0, 4), (-2, 2)][c % 4]
    bands = ["r", "g", "b"] if nb == 3 else None
    left = gen.make_dataset(l, (a, b), lm, bands=bands)
    right = gen.make_dataset(r, None, rm, bands=bands)
    method = ["census", "sad", "zncc", "ssd"][c % 4]
    subpix = [1, 2, 4][c % 3]
    keys = ["matching_cost"]
    params = {"matching_cost": {"matching_cost_method": method, "window_size": 3 if method == "census" else [3, 5][c % 2], "subpix": subpix}}
    if nb == 3:
        params["matching_cost"]["band"] = "g"
    if nb == 1 and c % 3 == 0:
        keys.append("aggregation")
        params["aggregation"] = {"aggregation_method": "cbca", "cbca_distance": 3}
    keys += ["cost_volume_confidence", "cost_volume_confidence.r", "cost_volume_confidence.ib", "disparity", "refinement"]
    params["cost_volume_confidence"] = {"confidence_method": "ambiguity", "eta_max": 0.7, "eta_step": 0.05}
    params["cost_volume_confidence.r"] = {"confidence_method": "risk", "eta_max": 0.5, "eta_step": 0.05}
    params["cost_volume_confidence.ib"] = {"confidence_method": "interval_bounds", "regularization": bool(c % 2),
                                           "ambiguity_indicator": "", "vertical_depth": c % 3}
    params["refinement"] = {"refinement_method": ["vfit", "quadratic"][c % 2]}
    if c % 2 == 0:
        keys.append("filter")
        params["filter"] = {"filter_method": ["median", "bilateral"][(c // 2) % 2]}
        if params["filter"]["filter_method"] == "bilateral":
            # different sigma_space values that give the same window width (2.0 / 2.3 -> 7, 1.0 / 1.2 -> 4)
            params["filter"].update({"sigma_space": [2.0, 2.3, 1.0, 1.2][(c // 4) % 4], "sigma_color": [2.0, 3.0][(c // 8) % 2]})
    keys.append("filter.mfi")
    params["filter.mfi"] = {"filter_method": "median_for_intervals", "interval_indicator": "ib", "regularization": True,
                            "ambiguity_indicator": "", "vertical_depth": (c + 1) % 3, "ambiguity_threshold": 0.7}
    if c % 3 == 1:
        # a second refinement, after the filters: its input disparities are no longer cost-volume samples
        keys.append("refinement.again")
        params["refinement.again"] = {"refinement_method": ["quadratic", "vfit"][c % 2]}
    if c % 4 != 3:
        keys.append("validation")
        params["validation"] = {"validation_method": "cross_checking_accurate"}
        if c % 4 == 1:
            params["validation"]["interpolated_disparity"] = "sgm"
        if c % 4 == 2:
            params["validation"]["interpolated_disparity"] = "mc-cnn"
    pipe = pipes.instantiate(keys, params=params)
    return pipe, left, right, {"c": c, "pipeline": keys, "shape": [rows, cols], "bands": nb, "method": method, "subpix": subpix}


def run_once(pipe, left, right, machine=None, cfg_box=None):
    """Returns (full digest, partial digest) - partial = disparity map + pre-validation flags (left side).
    cfg_box: a dict holding the checked configuration object of an earlier call under "cfg": it is then run again as it is
    (documented usage: a configuration is checked once and run any number of times)."""
    import pandora

    m = machine or pipes.new_machine()
    if cfg_box is not None and "cfg" in cfg_box:
        cfg = cfg_box["cfg"]
    else:
        pipes.check(m, pipe, left, right)
        cfg = pipes.checked_cfg(m, pipe)
        if cfg_box is not None:
            cfg_box["cfg"] = cfg
    pre = {}

    def before(ev, mm):
        if ev["kind"] == "validation" and "flags" not in pre:
            pre["flags"] = mm.left_disparity["validity_mask"].data.copy()
            pre["disp"] = mm.left_disparity["disparity_map"].data.copy()

    tr = trace.Tracer(m, on_before=before)
    l, r = pandora.run(m, left, right, cfg)
    tr.uninstall()
    full = gen.ds_digest(l, with_attrs=False) + gen.ds_digest(r, with_attrs=False) if len(r.sizes) else gen.ds_digest(l, with_attrs=False)
    if "flags" not in pre:
        if "disparity_map" not in l:
            # a pipeline that stops before the disparity step: there is no map, the partial digest is the full one
            return full, full[:20], m
        pre["flags"], pre["disp"] = l["validity_mask"].data, l["disparity_map"].data
    import hashlib
    h = hashlib.sha256()
    h.update(np.ascontiguousarray(pre["flags"]).tobytes())
    h.update(np.ascontiguousarray(pre["disp"]).tobytes())
    return full, h.hexdigest()[:20], m


def run_case(case, ctx):
    if case["work"] == "hist":
        return _hist(case, ctx)
    pipe, left, right, desc = make_case(ctx, case["c"])
    li, ri = gen.ds_digest(left), gen.ds_digest(right)
    fulls, parts = [], []
    m = None
    box: dict = {}
    for rep in range(case["reps"]):
        # repetition 0: fresh machine; 1: the same machine again, with the very configuration object of repetition 0;
        # 2+: fresh machines and freshly checked configurations
        mach = m if rep == 1 else None
        full, part, m_used = run_once(pipe, left, right, mach, box if rep <= 1 else None)
        if rep == 0:
            m = m_used
        fulls.append(full)
        parts.append(part)
        ctx.gate("input_digests_compared")
        if gen.ds_digest(left) != li or gen.ds_digest(right) != ri:
            ctx.violation("input-dataset-modified-by-run", f"case {desc}: input digest changed after repetition {rep}", case,
                          situation="left" if gen.ds_digest(left) != li else "right", desc=desc)
            li, ri = gen.ds_digest(left), gen.ds_digest(right)
    ctx.gate("repetitions_compared", len(fulls) - 1)
    if len(set(fulls)) > 1:
        ctx.violation("repetition-differs", f"case {desc} setting {case['setting']}: digests {fulls} (rep 1 reuses the machine)", case,
                      situation="reused-machine" if fulls[0] != fulls[1] and len(set(fulls[2:] + fulls[:1])) == 1 else "fresh-machine", desc=desc)
    ctx.info.setdefault("digests", []).append(f"{case['c']}|{case['setting']}|{fulls[0]}|{parts[0]}")
    ctx.case(["runs", case["c"], case["setting"]])
    ctx.gate("multiband_mask_inputs", int(desc["bands"] == 3))
    ctx.gate("kernel_refinement")
    ctx.gate("kernel_ambiguity")
    ctx.gate("kernel_risk")
    ctx.gate("kernel_interval_bounds")
    ctx.gate("kernel_regularisation")
    if ctx.evaluations <= 2:
        ctx.sample({"case": desc, "setting": case["setting"], "full_digest": fulls[0], "partial_digest": parts[0]})


def _hist(case, ctx):
    import pandora

    rng = ctx.rng("hist", case["part"], case["i"])
    c = int(rng.integers(0, 8))
    pipe, left, right, desc = make_case(ctx, c)
    variant = case["i"] % 4
    if variant == 1:
        # the pipeline stops after its confidence steps (cost volume and confidence bands only)
        ks = list(pipe)
        pipe = {k: pipe[k] for k in ks[:ks.index("disparity")]}
        desc = dict(desc, pipeline=list(pipe), variant="stops-before-the-disparity-step")
    elif variant == 2:
        # a multiscale pipeline with confidence steps
        ks = list(pipe)
        pipe = {k: pipe[k] for k in ks[:ks.index("disparity") + 2] if k != "cost_volume_confidence.ib" and k != "aggregation"}
        pipe["multiscale"] = {"multiscale_method": "fixed_zoom_pyramid", "num_scales": 2, "scale_factor": 2, "marge": 1}
        desc = dict(desc, pipeline=list(pipe), variant="multiscale")
    ctx.gate("history_of_a_pipeline_without_disparity_step", int(variant == 1))
    ctx.gate("history_of_a_multiscale_pipeline", int(variant == 2))
    M = pipes.new_machine()
    ref_full, _, _ = run_once(pipe, gen.deep_copy_ds(left), gen.deep_copy_ds(right), pipes.new_machine())
    digests = []
    others = []
    other_mc = False
    n_ops = int(rng.integers(4, 9))
    ops = []
    for _ in range(n_ops):
        op = ["P-run", "P-check", "other-check", "other-run", "P-run"][int(rng.integers(0, 5))]
        ops.append(op)
        if op == "P-run":
            full, _, _ = run_once(pipe, left, right, M)
            digests.append(full)
        elif op == "P-check":
            pipes.check(M, pipe, left, right)
        else:
            rows, cols = int(rng.integers(8, 20)), int(rng.integers(9, 24))
            keys, params, info = pipes.random_pipeline(rng, rows, cols, max_post=3, allow_mfi=False)
            if info["method"] != desc["method"]:
                other_mc = True
            ol, orr = gen.stereo_pair(rng, rows, cols, "random", max_shift=2)
            od_l = gen.make_dataset(ol, (-2, 2), None)
            od_r = gen.make_dataset(orr, None, None)
            om = pipes.new_machine()
            others.append(om)
            p2 = pipes.build_pipe(keys, params)
            if op == "other-check":
                pipes.check(om, p2, od_l, od_r)
            else:
                pipes.check_and_run(p2, od_l, od_r, om)
    if not digests:
        full, _, _ = run_once(pipe, left, right, M)
        digests.append(full)
    ctx.gate("histories_with_other_matching_cost_class", int(other_mc))
    ctx.case(["hist", c, ops])
    if any(d != ref_full for d in digests):
        ctx.violation("history-changes-the-result",
                      f"case {desc}: ops {ops} gave digests {digests}, a fresh process-local reference run gave {ref_full}", case,
                      situation="other-pipelines-interleaved" if any(o.startswith("other") for o in ops) else "same-machine-only", desc=desc)
    if case["i"] < 2:
        ctx.sample({"history": ops, "case": desc, "digests": digests[:3]})


def finish(coverage, tot, tier):
    """Cross-process comparison of the digests reported by the 'runs' shards."""
    by_case: dict = {}
    for s in tot["info"].get("digests", []):
        c, setting, full, part = s.split("|")
        by_case.setdefault(c, {})[setting] = (full, part)
    n_cmp = 0
    min_settings = 99
    for c, d in sorted(by_case.items(), key=lambda kv: int(kv[0])):
        par = {k: v for k, v in d.items() if k != "seq"}
        min_settings = min(min_settings, len(par))
        fulls = {v[0] for v in par.values()}
        n_cmp += 1
        if len(fulls) > 1:
            groups: dict = {}
            for k, v in par.items():
                groups.setdefault(v[0], []).append(k)
            tot["violations"].append({
                "clause": "result-differs-across-processes", "situation": "full-products",
                "what": f"case {c}: product digests differ across worker processes (different thread counts and different orders of the other cases): {groups}",
                "case": {"work": "runs", "c": int(c), "reps": 2, "setting": "replay"}, "shard": "cross-process", "mode": "A"})
        if "seq" in d:
            parts = {v[1] for v in d.values()}
            if len(parts) > 1:
                groups = {}
                for k, v in d.items():
                    groups.setdefault(v[1], []).append(k)
                tot["violations"].append({
                    "clause": "result-depends-on-parallel-switch", "situation": "disparity-map-and-pre-validation-flags",
                    "what": f"case {c}: disparity map / pre-validation flags differ between PANDORA_NUMBA_PARALLEL settings: {groups}",
                    "case": {"work": "runs", "c": int(c), "reps": 2, "setting": "replay"}, "shard": "cross-process", "mode": "A"})
    tot["gates"]["cases_compared_across_processes"] = n_cmp
    tot["gates"]["settings_compared_per_case"] = 0 if min_settings == 99 else min_settings
    coverage["cross_process"] = {"cases": n_cmp, "settings_per_case_min": None if min_settings == 99 else min_settings,
                                 "settings": [s[0] for s in SETTINGS] + ["nocache", "wq5"]}
    tot["info"].pop("digests", None)
