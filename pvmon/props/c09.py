"""C09 - the requested disparity interval is honoured and does not leak into costs.

Metamorphic monitor over pairs of recorded executions that differ only by the interval, plus
containment invariants at the step hooks of end-to-end runs."""
from __future__ import annotations

import json
import os

import numpy as np

from pvmon import gen, pipes, trace

LEVEL = "exploration"
RULE = (
    "stereo pairs (masks, mono/multiband) x nested interval pairs [a,b] within [A,B] (point intervals, one-sided "
    "differences, negative / positive / straddling) x {sad,ssd,census,zncc} x subpix {1,2,4} x [cbca]: cost volume of the "
    "inner run vs the slice of the outer run; per-pixel grids vs their scalar hull, constant grids vs the scalar interval; "
    "end-to-end pipelines (refinement, filters, validation with filling) with containment judged after the disparity "
    "and refinement steps and on the final map. distinct = (measure, window, subpix, intervals, masks, shape | pipeline); "
    "non-trivial = inner interval strictly smaller than the outer one / grid with out-of-interval samples"
)
ASSUMPTIONS = ["with cbca only the scalar-nesting relation is claimed (NaN-ed neighbours legitimately change aggregated sums)"]
GATES = {
    "nested_scalar_pairs": 10, "grid_of_equal_width_intervals": 1, "nested_with_cbca": 2, "grid_vs_hull": 5, "constant_grid_vs_scalar": 3, "point_inner_interval": 1,
    "end_to_end_pipelines": 10, "right_image_with_its_own_interval": 1, "grid_on_a_scene_spanning_blocks_of_100": 2, "nested_with_a_confidence_step": 3, "interval_excluding_0_with_filling": 2, "interval_excluding_0": 5, "filled_pixels_contained": 1, "costs_compared": 50000, "pixels_contained": 5000,
}
INVALID = 0b1111000011


def plan(tier, seed):
    specs = []
    n = 6 if tier == "quick" else 14
    for i in range(n):
        specs.append({"name": f"nest-{i}", "work": "nest", "part": i, "n": 10 if tier == "quick" else 110,
                      "mode": "B" if i % 4 == 3 else "A", "timeout": 3000})
    n = 3 if tier == "quick" else 10
    for i in range(n):
        specs.append({"name": f"e2e-{i}", "work": "e2e", "part": i, "n": 20 if tier == "quick" else 150,
                      "mode": "B" if i % 2 else "A", "timeout": 3000})
    return specs


def setup(spec, ctx):
    pipes.register_plugins()


def cases(spec, ctx):
    for i in range(spec["n"]):
        yield {"work": spec["work"], "part": spec["part"], "i": i}


def cost_volume(pipe, left, right, after_kind):
    """Run and capture the left cost volume right after the last step of kind after_kind."""
    import pandora

    m = pipes.new_machine()
    pipes.check(m, pipe, left, right)
    cfg = pipes.checked_cfg(m, pipe)
    got = {}

    def after(ev, mm):
        if ev["kind"] == after_kind and ev["phase"] == "after":
            got["cv"] = trace.snapshot(mm, ("left_cv",))["left_cv"]

    trace.Tracer(m, on_after=after)
    pandora.run(m, left, right, cfg)
    return got["cv"]


def run_case(case, ctx):
    if case["work"] == "e2e":
        return _e2e(case, ctx)
    rng = ctx.rng("nest", case["part"], case["i"])
    method = ["sad", "ssd", "census", "zncc"][int(rng.integers(0, 4))]
    w = int(rng.choice([3, 5])) if method == "census" else int(rng.choice([1, 3, 5]))
    subpix = int(rng.choice([1, 2, 4]))
    rows, cols = int(rng.integers(max(w, 5), 22)), int(rng.integers(max(w, 7), 30))
    nb = 1 if rng.random() < 0.85 else 3
    tall = case["i"] == 2
    if tall:
        # directed constructor: per-pixel grids on a scene spanning more than one internal block of 100 rows / columns
        rows, cols = (int(rng.integers(201, 215)), int(rng.integers(max(w, 7), 12))) if case["part"] % 2 == 0 else (int(rng.integers(max(w, 5), 10)), int(rng.integers(201, 215)))
    cbca = nb == 1 and rng.random() < 0.35 and not tall
    l, r = gen.stereo_pair(rng, rows, cols, gen.TEXTURES[int(rng.integers(0, 5))], max_shift=3, bands=nb)
    lm = gen.mask(rng, rows, cols, gen.MASK_KINDS[int(rng.integers(0, 9))]) if rng.random() < 0.4 else None
    rm = gen.mask(rng, rows, cols, gen.MASK_KINDS[int(rng.integers(0, 9))]) if rng.random() < 0.4 else None
    A = -int(rng.integers(0, 6))
    B = A + int(rng.integers(1, 8))
    a = int(rng.integers(A, B + 1))
    b = int(rng.integers(a, B + 1))
    relation = ["scalar", "scalar", "grid", "constant-grid"][int(rng.integers(0, 4))]
    if case["i"] == 0 or tall:
        relation, cbca = "grid", False
    ctx.gate("grid_on_a_scene_spanning_blocks_of_100", int(tall))
    if cbca and relation == "grid":
        relation = "scalar"
    keys = ["matching_cost"] + (["aggregation"] if cbca else [])
    params = {"matching_cost": {"matching_cost_method": method, "window_size": w, "subpix": subpix}}
    if nb == 3:
        params["matching_cost"]["band"] = "b"
    if cbca:
        params["aggregation"] = {"aggregation_method": "cbca", "cbca_distance": int(rng.integers(1, 6)),
                                 "cbca_intensity": float(rng.choice([5.0, 30.0]))}
    # a confidence step after the cost-volume steps (it may read the costs, never change them): the volume is captured after it
    conf = [None, None, "ambiguity", "risk", "std_intensity"][int(rng.integers(0, 5))]
    if case["i"] == 1:
        conf = "ambiguity"
    if conf:
        keys.append("cost_volume_confidence")
        params["cost_volume_confidence"] = {"confidence_method": conf}
    ctx.gate("nested_with_a_confidence_step", int(bool(conf)))
    pipe = pipes.instantiate(keys, params=params)
    bands = ["r", "g", "b"] if nb == 3 else None
    after_kind = "cost_volume_confidence" if conf else ("aggregation" if cbca else "matching_cost")
    desc = {"method": method, "window": w, "subpix": subpix, "shape": [rows, cols], "outer": [A, B], "inner": [a, b], "cbca": cbca,
            "relation": relation, "bands": nb, "confidence": conf, "masks": [lm is not None, rm is not None]}

    def ds(disp, rdisp=None):
        return gen.make_dataset(l, disp, lm, bands=bands), gen.make_dataset(r, rdisp, rm, bands=bands)

    outer = cost_volume(pipe, *ds((A, B)), after_kind)
    od = outer.coords["disp"].data
    oc = outer["cost_volume"].data
    if od[0] != A or od[-1] != B:
        ctx.violation("sampled-disparities", f"outer volume samples [{od[0]},{od[-1]}] for interval [{A},{B}]", case, desc=desc)
    if relation == "scalar":
        inner = cost_volume(pipe, *ds((a, b)), after_kind)
        idd = inner.coords["disp"].data
        ic = inner["cost_volume"].data
        sel = (od >= a - 1e-9) & (od <= b + 1e-9)
        ctx.gate("nested_scalar_pairs")
        ctx.gate("nested_with_cbca", int(cbca))
        ctx.gate("point_inner_interval", int(a == b))
        if len(idd) != int(sel.sum()) or not np.allclose(idd, od[sel]):
            ctx.violation("sampled-disparities", f"inner samples {idd.tolist()} vs outer slice {od[sel].tolist()}", case, desc=desc)
        else:
            ctx.gate("costs_compared", int(ic.size))
            if not gen.same(ic, oc[:, :, sel]):
                x, y = ic, oc[:, :, sel]
                i = np.argwhere(~((x == y) | (np.isnan(x) & np.isnan(y))))[0]
                ctx.violation("cost-depends-on-the-requested-interval",
                              f"{method} w={w} subpix={subpix}{' +cbca' if cbca else ''}: cost at {i.tolist()} (disparity {idd[i[2]]}) is "
                              f"{x[tuple(i)]!r} for [{a},{b}] but {y[tuple(i)]!r} as part of [{A},{B}]", case,
                              situation="cbca" if cbca else "matching_cost", desc=desc)
        nontrivial = (a, b) != (A, B)
    else:
        if relation == "constant-grid":
            gmin, gmax = gen.grids(rng, rows, cols, A, B, "constant")
            ctx.gate("constant_grid_vs_scalar")
        else:
            gmin, gmax = gen.grids(rng, rows, cols, A, B, (["band", "pointvar"][case["part"] % 2] if case["i"] == 0 else ["random", "points", "rowwise", "band", "pointvar", "float"][int(rng.integers(0, 6))]))
            ctx.gate("grid_of_equal_width_intervals", int(bool((gmax - gmin == (gmax - gmin).flat[0]).all()) and bool((gmin != gmin.flat[0]).any())))
            ctx.gate("grid_vs_hull")
        g = cost_volume(pipe, *ds((gmin, gmax)), after_kind)
        gc, gd = g["cost_volume"].data, g.coords["disp"].data
        if len(gd) != len(od) or not np.allclose(gd, od):
            ctx.violation("sampled-disparities", f"grid volume samples {gd.tolist()} vs hull {od.tolist()}", case, desc=desc)
        else:
            ctx.gate("costs_compared", int(gc.size))
            inside = (od[None, None, :] >= gmin[..., None]) & (od[None, None, :] <= gmax[..., None])
            if not cbca:
                exp = np.where(inside, oc, np.nan)
                if not gen.same(gc, exp):
                    i = np.argwhere(~((gc == exp) | (np.isnan(gc) & np.isnan(exp))))[0]
                    ctx.violation(
                        "grid-cost-differs-from-hull-run",
                        f"pixel ({i[0]},{i[1]}) interval [{gmin[i[0], i[1]]},{gmax[i[0], i[1]]}] disparity {od[i[2]]}: grid run "
                        f"{gc[tuple(i)]!r}, scalar-hull run {oc[tuple(i)]!r} ({'inside' if inside[tuple(i)] else 'outside'} the pixel's interval)",
                        case, situation="inside" if inside[tuple(i)] else "outside", desc=desc)
            else:
                if not gen.same(gc, oc):
                    ctx.violation("constant-grid-differs-from-scalar", f"{gen.first_diffs(oc, gc, 3)}", case, desc=desc)
        nontrivial = bool((gmin > A).any() or (gmax < B).any()) or relation == "constant-grid"
    ctx.case([desc[k] for k in sorted(desc)], nontrivial=nontrivial)
    if ctx.evaluations <= 2:
        ctx.sample({"case": desc})


def _e2e(case, ctx):
    import pandora

    rng = ctx.rng("e2e", case["part"], case["i"])
    rows, cols = int(rng.integers(7, 24)), int(rng.integers(9, 30))
    directed = case["i"] < 4
    if directed:
        # directed constructor: an interval far from 0 on a small tile (the band of pixels without any candidate covers
        # about half of it), cross-checking and filling
        rows, cols = int(rng.integers(7, 12)), int(rng.integers(10, 16))
        keys, params, info = pipes.random_pipeline(rng, rows, cols, max_post=2 + case["i"] % 2, allow_mfi=False, validation=True,
                                                   filling=["sgm", "mc-cnn"][(case["part"] + case["i"]) % 2])
    elif case["i"] in (4, 5):
        # directed constructor: a filter before the refinement (the refined sample is then rarely the best of its triple),
        # similarity and dissimilarity measures, both refinement methods
        keys = ["matching_cost", "disparity", "filter", "refinement"]
        params = {"matching_cost": {"matching_cost_method": ["zncc", "sad"][(case["part"] + case["i"]) % 2], "window_size": 3, "subpix": 1},
                  "disparity": {"disparity_method": "wta", "invalid_disparity": -9999},
                  "filter": {"filter_method": "median", "filter_size": 3},
                  "refinement": {"refinement_method": ["vfit", "quadratic"][case["part"] % 2]}}
    else:
        keys, params, info = pipes.random_pipeline(rng, rows, cols, max_post=4, allow_mfi=False, repeat_bias=0.2,
                                                   validation=True if case["i"] in (6, 7, 8) else None)
    l, r = gen.stereo_pair(rng, rows, cols, gen.TEXTURES[int(rng.integers(0, 5))], max_shift=3)
    lm = gen.mask(rng, rows, cols, gen.MASK_KINDS[int(rng.integers(0, 9))]) if rng.random() < 0.4 else None
    rm = gen.mask(rng, rows, cols, gen.MASK_KINDS[int(rng.integers(0, 9))]) if rng.random() < 0.3 else None
    use_grid = rng.random() < 0.4 and not directed and case["i"] not in (6, 7, 8)
    ik = "far-neg" if directed else ["around", "around", "neg", "pos", "far-neg", "far-pos"][int(rng.integers(0, 6))]
    if ik == "around":
        lo, hi = -int(rng.integers(0, 5)), int(rng.integers(0, 5))
        if lo == hi == 0:
            hi = 2
    elif ik in ("neg", "pos"):
        a = int(rng.integers(1, 4))
        lo, hi = (-a - int(rng.integers(0, 4)), -a) if ik == "neg" else (a, a + int(rng.integers(0, 4)))
    else:
        a = int(rng.integers(max(2, cols // 2 - 2), cols // 2 + 2))
        lo, hi = (-a - int(rng.integers(0, 3)), -a) if ik == "far-neg" else (a, a + int(rng.integers(0, 3)))
    if use_grid:
        disp = gen.grids(rng, rows, cols, lo, hi, ["random", "points", "band", "pointvar"][int(rng.integers(0, 4))])
        rdisp = gen.grids(rng, rows, cols, -hi, -lo, "random")
    else:
        disp, rdisp = (lo, hi), None
    left = gen.make_dataset(l, disp, lm)
    # the right image may carry its OWN requested interval (not the mirror of the left one), in a dataset assembled by hand
    # without the optional disparity_source attribute
    own_right = (not use_grid) and case["i"] in (6, 7, 8) and any(pipes.kind_of(k) == "validation" for k in keys)
    rlo, rhi = -hi, -lo
    if own_right:
        rlo = -hi + int(rng.integers(1, 3))
        rhi = max(rlo, -lo + int(rng.integers(1, 4)))
        rdisp = (rlo, rhi)
    right = gen.make_dataset(r, rdisp, rm, disparity_source="absent" if (own_right and case["i"] != 8) else "auto")
    ctx.gate("right_image_with_its_own_interval", int(own_right))
    pipe = pipes.build_pipe(keys, params)
    desc = {"pipeline": keys, "params": {k: params[k] for k in keys}, "shape": [rows, cols], "disp": [lo, hi], "grid": use_grid,
            "interval": ik, "masks": [lm is not None, rm is not None]}
    fills = any(params[k].get("interpolated_disparity") for k in keys)
    ctx.gate("interval_excluding_0_with_filling", int(fills and not lo <= 0 <= hi))
    ctx.gate("interval_excluding_0", int(not lo <= 0 <= hi))
    m = pipes.new_machine()
    pipes.check(m, pipe, left, right)
    cfg = pipes.checked_cfg(m, pipe)
    pmin = left["disparity"].sel(band_disp="min").data.astype(np.float64)
    pmax = left["disparity"].sel(band_disp="max").data.astype(np.float64)
    own_ok = {"v": True}

    def after(ev, mm):
        if ev["phase"] != "after" or mm.left_disparity is None or "disparity_map" not in mm.left_disparity:
            return
        kind = ev["kind"]
        if kind in ("filter", "validation"):
            own_ok["v"] = False  # after a filter / filling the per-pixel clause no longer applies
        d = mm.left_disparity["disparity_map"].data.astype(np.float64)
        valid = (mm.left_disparity["validity_mask"].data & INVALID) == 0
        ctx.gate("pixels_contained", int(valid.sum()))
        if kind == "validation":
            ctx.gate("filled_pixels_contained", int((valid & ((mm.left_disparity["validity_mask"].data & 0b110000) != 0)).sum()))
        outg = valid & ~((d >= lo - 1e-6) & (d <= hi + 1e-6))
        if outg.any():
            i = np.argwhere(outg)[0]
            ctx.violation("valid-disparity-outside-global-interval",
                          f"after {ev['step_key']}: pixel {i.tolist()} disparity {d[tuple(i)]} outside [{lo},{hi}]", case,
                          situation=kind, desc=desc)
        if own_ok["v"] and kind in ("disparity", "refinement"):
            outp = valid & ~((d >= pmin - 1e-6) & (d <= pmax + 1e-6))
            if outp.any():
                i = np.argwhere(outp)[0]
                ctx.violation("valid-disparity-outside-pixel-interval",
                              f"after {ev['step_key']}: pixel {i.tolist()} disparity {d[tuple(i)]} outside its interval "
                              f"[{pmin[tuple(i)]},{pmax[tuple(i)]}]", case, situation=kind, desc=desc)
        if own_right and mm.right_disparity is not None and "disparity_map" in mm.right_disparity and kind in ("disparity", "refinement"):
            dr = mm.right_disparity["disparity_map"].data.astype(np.float64)
            vr = (mm.right_disparity["validity_mask"].data & INVALID) == 0
            outr = vr & ~((dr >= rlo - 1e-6) & (dr <= rhi + 1e-6))
            dri = mm.right_disparity["disparity_interval"].data
            if outr.any() or dri[0] != rlo or dri[1] != rhi:
                ctx.violation("right-interval-not-honoured",
                              f"after {ev['step_key']}: right map searched {dri.tolist()}, requested [{rlo},{rhi}]; {int(outr.sum())} valid pixels outside",
                              case, situation=kind, desc=desc)
        if kind == "disparity":
            di = mm.left_disparity["disparity_interval"].data
            cd = mm.left_cv.coords["disp"].data
            if di[0] != cd[0] or di[1] != cd[-1] or cd[0] != lo or cd[-1] != hi:
                ctx.violation("disparity-interval-not-the-searched-one", f"stored {di.tolist()}, sampled [{cd[0]},{cd[-1]}], requested [{lo},{hi}]",
                              case, desc=desc)

    trace.Tracer(m, on_after=after)
    pandora.run(m, left, right, cfg)
    ctx.gate("end_to_end_pipelines")
    ctx.case(["e2e", keys, desc["params"], [rows, cols], [lo, hi], use_grid], nontrivial=len(keys) > 2)
