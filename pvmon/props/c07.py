"""C07 - cross-checking flags exactly the left-right inconsistent pixels, nothing else.

Reference model: the statement's three-way classification, pixel by pixel; the rounding of ties is
not imposed (half-to-even and half-away-from-zero are both tried, one of them must explain every
pixel of a run)."""
from __future__ import annotations

import numpy as np
import xarray as xr

from pvmon import gen, pipes, trace

LEVEL = "exploration"
RULE = (
    "synthetic left/right disparity maps 1x3..60x90 with integer, quarter and half-integer disparities, NaN / invalid "
    "entries, any flag layout, thresholds {0,0.4,1,2.5}, intervals narrower / wider than the disparities present, "
    "correspondents outside on both sides, offsets 0-2; plus the validation step of traced pipelines in both "
    "directions. distinct = (shape, step, interval, threshold, offset | pipeline); non-trivial = the run contains "
    "consistent, mismatched and occluded pixels"
)
ASSUMPTIONS = [
    "a pixel whose flag is valid carries a finite disparity (what every legal pipeline produces)",
    "'round' in the statement: ties are not fixed; the monitor accepts a run iff half-to-even or half-away-from-zero "
    "explains all of its pixels",
]
GATES = {
    "correspondent_outside_left_edge": 1, "correspondent_outside_right_edge": 1,
    "half_integer_at_even_column": 1, "half_integer_at_odd_column": 1,
    "nan_right_value_at_correspondent": 1, "mismatch_only_at_interval_end": 1, "pixel_already_invalid": 1,
    "pipeline_validation_steps": 5, "other_map_with_an_interval_that_is_not_the_mirror": 5, "pixels_classified": 20000, "validation_steps_with_filling_watched": 2,
}
INVALID = 0b1111000011
OCC, MIS = 256, 512


def plan(tier, seed):
    specs = []
    n = 4 if tier == "quick" else 12
    for i in range(n):
        specs.append({"name": f"synth-{i}", "work": "synth", "part": i, "n": 100 if tier == "quick" else 850,
                      "mode": "B" if i % 4 == 3 else "A", "timeout": 3000})
    n = 3 if tier == "quick" else 10
    for i in range(n):
        specs.append({"name": f"pipe-{i}", "work": "pipe", "part": i, "n": 25 if tier == "quick" else 200,
                      "mode": "B" if i % 2 else "A", "timeout": 3000})
    return specs


def setup(spec, ctx):
    pipes.register_plugins()


def cases(spec, ctx):
    for i in range(spec["n"]):
        yield {"work": spec["work"], "part": spec["part"], "i": i}


def rnd(x, conv):
    x = np.asarray(x, dtype=np.float64)
    if conv == "even":
        return np.rint(x)
    return np.sign(x) * np.floor(np.abs(x) + 0.5)


def classify(dL, mL, dR, thr, dmin, dmax, off, conv, eps=0.0):
    """Expected flags and consistency band. eps moves the threshold (interval oracle)."""
    H, W = dL.shape
    out = mL.astype(np.int64).copy()
    conf = np.full((H, W), np.nan)
    cls = np.zeros((H, W), np.int8)  # 0 not judged, 1 consistent, 2 mismatch, 3 occlusion
    for y in range(H):
        for p in range(W):
            if mL[y, p] & INVALID:
                continue
            d = float(dL[y, p])
            q = p + int(rnd(d, conv))
            inside = 0 <= q < W
            if inside:
                b = float(dR[y, q])
                v = np.inf if (np.isnan(b) or np.isnan(d)) else abs(d + b)
                conf[y, p] = v
                if v <= thr + eps:
                    cls[y, p] = 1
                    continue
            mism = False
            for dd in range(int(dmin), int(dmax) + 1):
                c = p + dd
                if 0 <= c < W and np.isfinite(dR[y, c]) and rnd(dR[y, c], conv) == -dd:
                    mism = True
                    break
            out[y, p] |= MIS if mism else OCC
            cls[y, p] = 2 if mism else 3
    if off > 0:
        out[:off, :] = 1
        out[-off:, :] = 1
        out[:, :off] = 1
        out[:, -off:] = 1
    return out, conf, cls


def make_disp_ds(d, mask, off, interval):
    d = np.asarray(d, np.float32)
    ds = xr.Dataset(
        {"disparity_map": (["row", "col"], d.copy()), "validity_mask": (["row", "col"], np.asarray(mask, np.uint16).copy())},
        coords={"row": np.arange(d.shape[0]), "col": np.arange(d.shape[1])},
    )
    ds["disparity_interval"] = xr.DataArray(list(interval), coords=[("disparity", ["min", "max"])])
    ds.attrs = {"offset_row_col": off}
    return ds


def judge(ctx, case, desc, dL, mL, dR, thr, dmin, dmax, off, got_mask, got_conf, got_disp, side="left"):
    """One cross-check execution against the oracle. Returns class counts."""
    H, W = dL.shape
    if not gen.same(got_disp, dL):
        ctx.violation("disparity-changed-by-cross-check", f"{side}: {gen.first_diffs(dL, got_disp, 4)}", case, desc=desc)
    got = got_mask.astype(np.int64)
    results = {}
    for conv in ("even", "away"):
        lo, _, _ = classify(dL, mL, dR, thr, dmin, dmax, off, conv, -4e-7 * max(1.0, thr))
        hi, conf, cls = classify(dL, mL, dR, thr, dmin, dmax, off, conv, +4e-7 * max(1.0, thr))
        ok = (got == lo) | (got == hi)
        results[conv] = (ok, conf, cls, hi)
    best = max(results, key=lambda c: results[c][0].sum())
    ok, conf, cls, exp = results[best]
    ctx.gate("pixels_classified", int((cls > 0).sum()))
    ctx.count(f"runs_explained_by_half_{best}")
    if not ok.all():
        i = np.argwhere(~ok)[0]
        y, p = int(i[0]), int(i[1])
        d = float(dL[y, p])
        q = p + int(rnd(d, best))
        if mL[y, p] & INVALID:
            sit = "already-invalid-pixel-changed"
        elif not 0 <= q < W:
            sit = "correspondent-outside"
        elif abs(d * 2 - round(d * 2)) < 1e-6 and abs(d - round(d)) > 0.25:
            sit = "half-integer-disparity"
        else:
            sit = "inside"
        ctx.violation(
            "cross-check-classification",
            f"{side}: {int((~ok).sum())} pixels differ; pixel ({y},{p}) dL={d} flag {int(mL[y, p])} -> {int(got[y, p])}, expected "
            f"{int(exp[y, p])} (correspondent column {q}, W={W}, threshold {thr}, interval [{dmin},{dmax}], rounding half-{best})",
            case, situation=sit, desc=desc)
    # consistency band on previously valid pixels
    if got_conf is not None:
        judged = cls > 0
        a, b = got_conf[judged].astype(np.float64), conf[judged]
        same = (np.isnan(a) & np.isnan(b)) | (np.isinf(a) & np.isinf(b)) | (np.abs(a - b) <= 1e-5 * np.maximum(1, np.abs(b)))
        if ok.all() and not same.all():
            k = np.argwhere(judged)[np.argmin(same)]
            ctx.violation("consistency-band", f"{side}: pixel {k.tolist()} band {got_conf[tuple(k)]!r} vs |dL+dR| {conf[tuple(k)]!r}", case,
                          situation="nan-expected" if np.isnan(conf[tuple(k)]) else "value", desc=desc)
    both = (got & OCC != 0) & (got & MIS != 0)
    if both.any():
        ctx.violation("occlusion-and-mismatch-together", f"{side}: pixel {np.argwhere(both)[0].tolist()}", case, desc=desc)
    # situation classes from the data
    valid = (mL & INVALID) == 0
    ev = rnd(dL, "even")
    q = np.arange(W)[None, :] + np.where(np.isfinite(dL), ev, 0)
    ctx.gate("correspondent_outside_left_edge", int((valid & (q < 0)).any()))
    ctx.gate("correspondent_outside_right_edge", int((valid & (q >= W)).any()))
    halfish = valid & (np.abs(dL * 2 - np.rint(dL * 2)) < 1e-6) & (np.abs(dL - np.rint(dL)) > 0.25)
    cols = np.arange(W)[None, :] + np.zeros((H, 1), int)
    ctx.gate("half_integer_at_even_column", int((halfish & (cols % 2 == 0)).any()))
    ctx.gate("half_integer_at_odd_column", int((halfish & (cols % 2 == 1)).any()))
    ctx.gate("pixel_already_invalid", int((~valid).any()))
    return cls


def run_case(case, ctx):
    from pandora import validation

    if case["work"] == "pipe":
        return _pipe(case, ctx)
    rng = ctx.rng("synth", case["part"], case["i"])
    big = case["i"] % 25 == 0
    H, W = (int(rng.integers(20, 60)), int(rng.integers(30, 90))) if big else (int(rng.integers(1, 8)), int(rng.integers(3, 16)))
    iv = (int(rng.integers(-4, 1)), int(rng.integers(0, 5)))
    step = float(rng.choice([1, 0.5, 0.25]))
    span = int(rng.integers(0, 3))  # disparities present may exceed the stored interval
    lo, hi = iv[0] - span, iv[1] + span
    dL = (rng.integers(int(lo / step), int(hi / step) + 1, (H, W)) * step).astype(np.float32)
    dR = (rng.integers(int(-hi / step), int(-lo / step) + 1, (H, W)) * step).astype(np.float32)
    if rng.random() < 0.4:
        dR[rng.random((H, W)) < 0.1] = np.nan
    mL = rng.choice(np.array([0, 0, 0, 0, 0, 4, 8, 12, 16, 32, 2048, 1, 2, 64, 128, 256, 512], np.uint16), (H, W))
    inv_val = [-9999.0, np.nan][int(rng.integers(0, 2))]
    dL[(mL & INVALID) != 0] = inv_val
    if rng.random() < 0.2:
        dR[rng.random((H, W)) < 0.1] = -9999.0
    off = int(rng.choice([0, 0, 1, 2])) if min(H, W) >= 5 else 0
    thr = float(rng.choice([0, 0.4, 1.0, 1, 2.5]))
    desc = {"shape": [H, W], "step": step, "interval": list(iv), "present": [lo, hi], "threshold": thr, "offset": off}
    if off:
        mL[:off] = mL[-off:] = 1
        mL[:, :off] = mL[:, -off:] = 1
    v = validation.AbstractValidation(validation_method="cross_checking_accurate", cross_checking_threshold=thr)
    left_ds = make_disp_ds(dL, mL, off, iv)
    # the other map carries its own interval: the mirror of the checked map's one, or (a user-supplied right interval, right
    # grids) an unrelated one - the rule only speaks of the interval of the map being checked
    riv = (-iv[1], -iv[0])
    if case["i"] % 3 == 1:
        riv = (int(rng.integers(-6, 1)), int(rng.integers(0, 7)))
    ctx.gate("other_map_with_an_interval_that_is_not_the_mirror", int(riv != (-iv[1], -iv[0])))
    desc["other_interval"] = list(riv)
    right_ds = make_disp_ds(dR, np.zeros((H, W)), off, riv)
    dR_before = dR.copy()
    out = v.disparity_checking(left_ds, right_ds)
    if not gen.same(right_ds["disparity_map"].data, dR_before):
        ctx.violation("other-map-changed-by-cross-check", "the right map was modified while checking the left one", case, desc=desc)
    band = None
    if "confidence_measure" in out:
        names = list(out.coords["indicator"].data)
        if "confidence_from_left_right_consistency" not in names:
            ctx.violation("consistency-band-missing", f"bands {names}", case, desc=desc)
        else:
            band = out["confidence_measure"].sel(indicator="confidence_from_left_right_consistency").data
    else:
        ctx.violation("consistency-band-missing", "no confidence_measure after the cross-check", case, desc=desc)
    cls = judge(ctx, case, desc, dL, mL, dR, thr, iv[0], iv[1], off, out["validity_mask"].data, band, out["disparity_map"].data)
    # NaN right value at the correspondent / mismatch only at an interval end
    valid = (mL & INVALID) == 0
    q = np.arange(W)[None, :] + np.where(np.isfinite(dL), np.rint(dL), 0).astype(int)
    inside = valid & (q >= 0) & (q < W)
    yy, xx = np.where(inside)
    ctx.gate("nan_right_value_at_correspondent", int(len(yy) > 0 and bool(np.isnan(dR[yy, q[yy, xx]]).any())))
    if (cls == 2).any():
        # is there a mismatch pixel whose only witness d is an end of the interval?
        for y, p in np.argwhere(cls == 2)[:40]:
            wit = [dd for dd in range(iv[0], iv[1] + 1) if 0 <= p + dd < W and np.isfinite(dR[y, p + dd]) and np.rint(dR[y, p + dd]) == -dd]
            if wit and all(dd in (iv[0], iv[1]) for dd in wit):
                ctx.gate("mismatch_only_at_interval_end")
                break
    nontrivial = all((cls == k).any() for k in (1, 2, 3))
    ctx.case([desc[k] for k in sorted(desc)], nontrivial=nontrivial)
    if ctx.evaluations <= 2:
        ctx.sample({"case": desc, "consistent": int((cls == 1).sum()), "mismatch": int((cls == 2).sum()), "occlusion": int((cls == 3).sum())})


def _pipe(case, ctx):
    import pandora

    rng = ctx.rng("pipe", case["part"], case["i"])
    rows, cols = int(rng.integers(6, 24)), int(rng.integers(8, 30))
    keys, params, info = pipes.random_pipeline(rng, rows, cols, validation=True, filling=False, max_post=3,
                                               post=("refinement", "filter", "validation"), allow_mfi=False)
    # keep one validation step (ownership of repeated steps is C04's subject)
    seen = False
    kk = []
    for k in keys:
        if pipes.kind_of(k) == "validation":
            if seen:
                continue
            seen = True
        kk.append(k)
    keys = kk
    # a third of the pipelines keep a filling option: the cross-check of EACH map must then still see the other map as the
    # preceding steps left it (the flags of such a step are C14's subject; here only what the two cross-checks received)
    fill = [None, None, "mc-cnn", "sgm"][int(rng.integers(0, 4))] if case["i"] % 3 == 2 else None
    for k in keys:
        if pipes.kind_of(k) == "validation":
            params[k].pop("interpolated_disparity", None)
            if fill:
                params[k]["interpolated_disparity"] = fill
    tex = gen.TEXTURES[int(rng.integers(0, 5))]
    l, r = gen.stereo_pair(rng, rows, cols, tex, max_shift=3)
    lm = gen.mask(rng, rows, cols, gen.MASK_KINDS[int(rng.integers(0, 9))]) if rng.random() < 0.4 else None
    rm = gen.mask(rng, rows, cols, gen.MASK_KINDS[int(rng.integers(0, 9))]) if rng.random() < 0.4 else None
    a, b = gen.interval(rng, cols, ["neg", "pos", "straddle", "straddle"][int(rng.integers(0, 4))])
    left = gen.make_dataset(l, (a, b), lm)
    right = gen.make_dataset(r, None, rm)
    pipe = pipes.build_pipe(keys, params)
    m = pipes.new_machine()
    pipes.check(m, pipe, left, right)
    cfg = pipes.checked_cfg(m, pipe)
    st = {}
    desc = {"pipeline": keys, "params": {k: params[k] for k in keys}, "shape": [rows, cols], "disp": [a, b]}

    def before(ev, mm):
        if ev["kind"] == "validation":
            st["b"] = trace.snapshot(mm, ("left_disparity", "right_disparity"))

    def after(ev, mm):
        if ev["kind"] != "validation":
            return
        ctx.gate("validation_steps_with_filling_watched", int(bool(fill)))
        for ref_d, sec_d in received:
            pre = [st["b"]["left_disparity"]["disparity_map"].data, st["b"]["right_disparity"]["disparity_map"].data]
            if not any(gen.same(sec_d, p_) for p_ in pre) or not any(gen.same(ref_d, p_) for p_ in pre):
                ctx.violation("cross-check-received-a-map-already-modified-by-the-step",
                              "one of the two cross-checks of the validation step was given a disparity map that is neither the left "
                              "nor the right map as the preceding steps left them", case, situation=str(fill), desc=desc)
        del received[:]
        if fill:
            return
        thr = cfg["pipeline"][ev["step_key"]]["cross_checking_threshold"]
        bl, br = st["b"]["left_disparity"], st["b"]["right_disparity"]
        for side, me_b, other_b, me_a in (("left", bl, br, mm.left_disparity), ("right", br, bl, mm.right_disparity)):
            di = me_b["disparity_interval"].data
            off = int(me_b.attrs["offset_row_col"])
            band = me_a["confidence_measure"].sel(indicator="confidence_from_left_right_consistency").data \
                if "confidence_measure" in me_a and "confidence_from_left_right_consistency" in list(me_a.coords["indicator"].data) else None
            if band is None:
                ctx.violation("consistency-band-missing", f"{side}: no consistency band after the validation step", case, desc=desc)
            judge(ctx, case, desc, me_b["disparity_map"].data, me_b["validity_mask"].data, other_b["disparity_map"].data,
                  float(thr), int(di[0]), int(di[1]), off, me_a["validity_mask"].data, band, me_a["disparity_map"].data, side)
        ctx.gate("pipeline_validation_steps")

    trace.Tracer(m, on_before=before, on_after=after)
    from pandora import validation as _val
    received, undo = [], []
    for cls in set(_val.AbstractValidation.validation_methods_avail.values()):
        orig = cls.disparity_checking

        def make(orig=orig):
            def w(self_, ds_ref, ds_sec, *a_, **k_):
                received.append((ds_ref["disparity_map"].data.copy(), ds_sec["disparity_map"].data.copy()))
                return orig(self_, ds_ref, ds_sec, *a_, **k_)
            return w
        cls.disparity_checking = make()
        undo.append((cls, orig))
    try:
        pandora.run(m, left, right, cfg)
    finally:
        for cls, orig in undo:
            cls.disparity_checking = orig
    ctx.case(["pipe", keys, desc["params"], [rows, cols], [a, b]], nontrivial=True)
